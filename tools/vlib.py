"""Shared machinery for the per-property checks (see DESIGN.md section 3.1)."""
import hashlib
import json
import os
import re
import subprocess
import sys
import time

VERIF = os.path.dirname(os.path.dirname(os.path.abspath(__file__)))
COQ = os.path.join(VERIF, "coq")
REPO = os.environ.get("VERIF_REPO", "/repo")
PY = "/venv/bin/python"
COQ_TIMEOUT = int(os.environ.get("VERIF_COQ_TIMEOUT", "900"))

FORBIDDEN = re.compile(
    r"\b(Admitted|admit|Axiom|Axioms|Parameter|Parameters|Conjecture|Admit Obligations)\b"
    r"|Unset Guard|bypass_check|type-in-type|impredicative-set")

# axioms that may legitimately appear under Print Assumptions (all declared by the
# standard library / Coquelicot's dependencies, none by this development)
ALLOWED_AXIOMS = {
    "ClassicalDedekindReals.sig_not_dec",
    "ClassicalDedekindReals.sig_forall_dec",
    "FunctionalExtensionality.functional_extensionality_dep",
    "Classical_Prop.classic",
}


def impl_env():
    env = dict(os.environ)
    env["PYTHONPATH"] = REPO + os.pathsep + os.path.join(VERIF, "tools")
    env["PYTHONHASHSEED"] = "0"
    env["NASA_BINGO_VERIF"] = "1"
    env["OMP_NUM_THREADS"] = "1"
    env["OPENBLAS_NUM_THREADS"] = "1"
    return env


def sh(cmd, timeout=None, cwd=None, env=None, input=None):
    t0 = time.time()
    try:
        p = subprocess.run(cmd, cwd=cwd, env=env, input=input, timeout=timeout,
                           stdout=subprocess.PIPE, stderr=subprocess.STDOUT, text=True)
        out = "\n".join(l for l in p.stdout.splitlines() if "conda" not in l)
        return p.returncode, out, time.time() - t0
    except subprocess.TimeoutExpired as e:
        out = e.stdout if isinstance(e.stdout, str) else (e.stdout or b"").decode(errors="replace")
        return 124, (out or "") + "\nTIMEOUT", time.time() - t0


# ---------------------------------------------------------------- Coq side
def translate_all():
    """Regenerate coq/Gen/*.v from the current /repo working tree (fail-closed)."""
    tdir = os.path.join(VERIF, "tools", "translate")
    results = {}
    for f in sorted(os.listdir(tdir)):
        if f.startswith("tr_") and f.endswith(".py"):
            rc, out, _ = sh([PY, os.path.join(tdir, f), REPO, os.path.join(COQ, "Gen")], timeout=120)
            results[f] = (rc, out)
    return results


def ensure_makefile():
    mk = os.path.join(COQ, "Makefile.coq")
    vfiles = []
    for d in ("Lib", "Gen", "Model", "Proofs", "Properties"):
        dd = os.path.join(COQ, d)
        if os.path.isdir(dd):
            vfiles += sorted(os.path.join(d, f) for f in os.listdir(dd) if f.endswith(".v"))
    proj = open(os.path.join(COQ, "_CoqProject")).read().splitlines()
    head = [l for l in proj if l.startswith("-")]
    want = "\n".join(head + vfiles) + "\n"
    pfile = os.path.join(COQ, "_CoqProject.all")
    if not os.path.exists(pfile) or open(pfile).read() != want or not os.path.exists(mk):
        open(pfile, "w").write(want)
        rc, out, _ = sh(["coq_makefile", "-f", "_CoqProject.all", "-o", "Makefile.coq"], cwd=COQ, timeout=120)
        if rc != 0:
            raise RuntimeError("coq_makefile failed: " + out)


def make(targets, jobs=8):
    # one build at a time: two checks started side by side would otherwise compile shared files concurrently
    import fcntl
    with open(os.path.join(COQ, ".build.lock"), "w") as lock:
        fcntl.flock(lock, fcntl.LOCK_EX)
        ensure_makefile()
        return sh(["timeout", str(COQ_TIMEOUT), "make", "-f", "Makefile.coq", "-j%d" % jobs] + targets,
                  cwd=COQ, timeout=COQ_TIMEOUT + 30)


def coq_deps(vfile):
    """direct+transitive Bingo dependencies of a .v file (relative paths)"""
    seen, todo = [], [vfile]
    while todo:
        f = todo.pop()
        if f in seen or not os.path.exists(os.path.join(COQ, f)):
            continue
        seen.append(f)
        txt = open(os.path.join(COQ, f)).read()
        for m in re.finditer(r"From\s+Bingo\s+Require\s+(?:Import|Export)\s+([^.]*(?:\.[A-Za-z_][^.\s]*)*)\.", txt):
            pass
        for m in re.finditer(r"From\s+Bingo\s+Require\s+(?:Import|Export)\s+((?:[A-Za-z_][A-Za-z0-9_]*(?:\.[A-Za-z_][A-Za-z0-9_]*)*\s*)+)\.(?:\s|$)", txt):
            for mod in m.group(1).split():
                todo.append(mod.replace(".", "/") + ".v")
    return seen


def forbidden_scan():
    """no Admitted/Axiom/... anywhere in coq/ (comments stripped)"""
    hits = []
    for root, _, files in os.walk(COQ):
        if os.path.basename(root) == "cases":
            continue
        for f in files:
            if not f.endswith(".v"):
                continue
            txt = open(os.path.join(root, f)).read()
            txt = strip_coq_comments(txt)
            for i, line in enumerate(txt.splitlines(), 1):
                if FORBIDDEN.search(line):
                    hits.append("%s:%d: %s" % (os.path.relpath(os.path.join(root, f), COQ), i, line.strip()))
                if re.match(r"\s*(Variable|Variables|Hypothesis|Hypotheses|Context)\b", line):
                    # allowed only inside a Section: checked structurally below
                    pass
    # top-level Variable/Hypothesis outside a section
    for root, _, files in os.walk(COQ):
        if os.path.basename(root) == "cases":
            continue
        for f in files:
            if not f.endswith(".v"):
                continue
            depth = 0
            txt = strip_coq_comments(open(os.path.join(root, f)).read())
            for i, line in enumerate(txt.splitlines(), 1):
                if re.match(r"\s*Section\b", line):
                    depth += 1
                elif re.match(r"\s*End\b", line) and depth > 0:
                    depth -= 1
                elif depth == 0 and re.match(r"\s*(Variable|Variables|Hypothesis|Hypotheses|Context)\b", line):
                    hits.append("%s:%d: top-level %s" % (f, i, line.strip()))
    return hits


def strip_coq_comments(txt):
    out, depth, i = [], 0, 0
    while i < len(txt):
        if txt.startswith("(*", i):
            depth += 1
            i += 2
        elif txt.startswith("*)", i) and depth > 0:
            depth -= 1
            i += 2
        else:
            if depth == 0:
                out.append(txt[i])
            elif txt[i] == "\n":
                out.append("\n")
            i += 1
    return "".join(out)


def prove(pid):
    """Build everything Properties/<pid>.v needs, then recompile it capturing
    Print Assumptions.  Returns dict(ok, obligations, discharged, axioms, log, wall)."""
    t0 = time.time()
    pfile = "Properties/%s.v" % pid
    res = dict(ok=False, obligations=0, discharged=0, axioms=[], log="", theorems=[], broken=None)
    src = strip_coq_comments(open(os.path.join(COQ, pfile)).read())
    thms = re.findall(r"^\s*(?:Theorem|Example)\s+([A-Za-z0-9_']+)", src, re.M)
    res["theorems"] = thms
    res["obligations"] = len(thms)
    hits = forbidden_scan()
    if hits:
        res["log"] = "forbidden constructs:\n" + "\n".join(hits)
        res["broken"] = "forbidden-construct-scan"
        return res
    deps = [d for d in coq_deps(pfile) if d != pfile]
    rc, out, _ = make([d + "o" for d in deps])
    if rc != 0:
        res["log"] = out[-6000:]
        m = re.search(r'File "\./([^"]+)", line (\d+)', out)
        res["broken"] = "dependency %s does not compile" % (m.group(1) + ":" + m.group(2) if m else "?")
        res["wall"] = time.time() - t0
        return res
    vo = os.path.join(COQ, pfile + "o")
    if os.path.exists(vo):
        os.remove(vo)
    rc, out, _ = sh(["timeout", str(COQ_TIMEOUT), "coqc", "-Q", ".", "Bingo",
                     "-w", "-notation-overridden,-deprecated-hint-without-locality,-deprecated-instance-without-locality",
                     pfile], cwd=COQ, timeout=COQ_TIMEOUT + 30)
    res["log"] = out[-6000:]
    if rc != 0:
        m = re.search(r'line (\d+), characters', out)
        # which theorem is the failing one: last theorem starting before that line
        broken = "?"
        if m:
            ln = int(m.group(1))
            lines = open(os.path.join(COQ, pfile)).read().splitlines()
            for j in range(min(ln, len(lines)) - 1, -1, -1):
                mm = re.match(r"\s*(?:Theorem|Example)\s+([A-Za-z0-9_']+)", lines[j])
                if mm:
                    broken = mm.group(1)
                    break
        res["broken"] = "theorem %s of %s" % (broken, pfile)
        res["discharged"] = max(0, thms.index(broken)) if broken in thms else 0
        res["wall"] = time.time() - t0
        return res
    # parse Print Assumptions output
    axioms = set()
    for m in re.finditer(r"^([A-Za-z_][A-Za-z0-9_.']*)\s*:", out, re.M):
        if m.group(1) not in ("Axioms", "File", "Warning"):
            axioms.add(m.group(1))
    res["axioms"] = sorted(axioms)
    bad = [a for a in axioms if a not in ALLOWED_AXIOMS and not a.startswith(("PrimFloat.", "Uint63.", "PrimInt63.", "FloatOps.", "FloatAxioms.", "Sint63."))]
    if bad:
        res["broken"] = "unexpected axioms " + ",".join(bad)
        res["wall"] = time.time() - t0
        return res
    res["ok"] = True
    res["discharged"] = len(thms)
    res["wall"] = time.time() - t0
    return res


# ---- Coq literals -------------------------------------------------------
def cz(n):
    n = int(n)
    return "(%d)" % n if n < 0 else str(n)


def clist(xs, f=cz):
    return "[" + "; ".join(f(x) for x in xs) + "]"


def copt(x, f=cz):
    return "None" if x is None else "(Some %s)" % f(x)


def cbool(b):
    return "true" if b else "false"


def coq_compare(name, header, runner, cases, shard=400, jobs=8):
    """cases: list of (input_term, expected_listZ).  runner : Coq function name  input -> list Z.
    Returns (bad_indices, model_outputs_for_bad, log).  The comparison itself is evaluated
    inside Coq with vm_compute; only the indices of disagreeing cases are printed."""
    cdir = os.path.join(COQ, "cases")
    os.makedirs(cdir, exist_ok=True)
    mods = []
    for m in re.finditer(r"From\s+Bingo\s+Require\s+(?:Import|Export)\s+(.*?)\.(?:\s|$)", header, re.S):
        mods += [x.replace(".", "/") + ".vo" for x in m.group(1).split()]
    if mods:
        rc, out, _ = make(mods)
        if rc != 0:
            return [("shard", -1)], "model does not compile: " + out[-2000:]
    for f in os.listdir(cdir):
        if f.startswith(name + "_"):
            os.remove(os.path.join(cdir, f))
    shards = [cases[i:i + shard] for i in range(0, len(cases), shard)]
    files = []
    for si, sc in enumerate(shards):
        fn = "%s_%d.v" % (name, si)
        with open(os.path.join(cdir, fn), "w") as fh:
            fh.write(header + "\n")
            fh.write("From Coq Require Import List ZArith Bool.\nImport ListNotations.\nOpen Scope Z_scope.\n")
            fh.write("Definition eqlz (a b : list Z) : bool := if list_eq_dec Z.eq_dec a b then true else false.\n")
            fh.write("Fixpoint bad {I} (run : I -> list Z) (n : nat) (cs : list (I * list Z)) : list nat :=\n"
                     "  match cs with [] => [] | (i, e) :: r => if eqlz (run i) e then bad run (S n) r else n :: bad run (S n) r end.\n")
            # the element type is read off the runner, so empty list literals inside a case need no annotation
            fh.write("Definition dom_of {I O} (f : I -> O) : Type := I.\n")
            fh.write("Definition cases : list (dom_of %s * list Z) := [\n" % runner)
            fh.write(";\n".join("(%s, %s)" % (i, clist(e)) for i, e in sc))
            fh.write("].\n")
            fh.write("Eval vm_compute in bad %s 0%%nat cases.\n" % runner)
        files.append(fn)
    procs = []
    log = ""
    bad = []
    # run in parallel batches
    pending = list(enumerate(files))
    running = []
    results = {}
    while pending or running:
        while pending and len(running) < jobs:
            si, fn = pending.pop(0)
            p = subprocess.Popen(["timeout", str(COQ_TIMEOUT), "coqc", "-Q", COQ, "Bingo", "-w", "none", fn],
                                 cwd=cdir, stdout=subprocess.PIPE, stderr=subprocess.STDOUT, text=True)
            running.append((si, fn, p))
        si, fn, p = running.pop(0)
        out, _ = p.communicate()
        results[si] = (p.returncode, out)
    for si in sorted(results):
        rc, out = results[si]
        out = "\n".join(l for l in out.splitlines() if "conda" not in l)
        m = re.search(r"=\s*\[(.*?)\]\s*:\s*list nat", out, re.S)
        if rc != 0 or not m:
            log += "shard %d failed: %s\n" % (si, out[-2000:])
            bad.append(("shard", si))
            continue
        body = m.group(1).replace("%nat", "").strip()
        if body:
            for tok in body.split(";"):
                bad.append(si * shard + int(tok.strip()))
    return bad, log


def coq_eval_one(header, term):
    """evaluate one closed term of type list Z; return python list or None"""
    cdir = os.path.join(COQ, "cases")
    os.makedirs(cdir, exist_ok=True)
    fn = "one_%d.v" % os.getpid()
    with open(os.path.join(cdir, fn), "w") as fh:
        fh.write(header + "\nFrom Coq Require Import List ZArith Bool.\nImport ListNotations.\nOpen Scope Z_scope.\n")
        fh.write("Eval vm_compute in (%s).\n" % term)
    rc, out, _ = sh(["timeout", "120", "coqc", "-Q", COQ, "Bingo", "-w", "none", fn], cwd=cdir)
    for ext in (".v", ".vo", ".vok", ".vos", ".glob"):
        try:
            os.remove(os.path.join(cdir, fn[:-2] + ext))
        except OSError:
            pass
    m = re.search(r"=\s*\[(.*?)\]\s*:\s*list Z", out, re.S)
    if rc != 0 or not m:
        return None
    body = m.group(1).replace("%Z", "").strip()
    return [int(t.strip().strip("()")) for t in body.split(";")] if body else []


# ---------------------------------------------------------------- impl side
ANCHOR_COVERAGE = {}      # file -> dict(statements=set, executed=set); union over every run_impl of this check


def anchor_files(module):
    """the files property <module> is anchored in (properties.jsonl), as absolute paths under /repo"""
    pid = module[:3].upper()
    for line in open(os.path.join(VERIF, "properties.jsonl")):
        d = json.loads(line)
        if d["id"] == pid:
            return [os.path.join(REPO, f) for f in d["anchors"]["files"] if f.endswith(".py")]
    return []


def run_impl(module, payload, timeout=1800):
    """run tools/props/<module>.py:impl_main(payload) inside a fresh interpreter that
    sees /repo's current working tree; returns the JSON result.  The run is traced (coverage.py, statement
    level, main process and its threads) over the files the property is anchored in, so that the evidence says
    which anchored statements the correspondence and the oracle never reached (VERIF_NO_COVERAGE=1 switches
    the tracing off; a tracing failure never changes a verdict)."""
    work = os.path.join(VERIF, "work")
    os.makedirs(work, exist_ok=True)
    tag = "%s_%d" % (module, os.getpid())
    fin, fout = os.path.join(work, tag + ".in.json"), os.path.join(work, tag + ".out.json")
    fcov = os.path.join(work, tag + ".cov.json")
    json.dump(payload, open(fin, "w"))
    for f in (fout, fcov):
        if os.path.exists(f):
            os.remove(f)
    # c04 breaks hanging mutations with SIGALRM; an exception raised from the handler while the tracer is active left a run
    # blocked (seen once, on a seeded change that hangs): that check is not traced
    anchors = [] if (os.environ.get("VERIF_NO_COVERAGE") or module in ("c04",)) else anchor_files(module)
    code = ("import sys, json; sys.path.insert(0, %r); import importlib\n"
            "anchors = %r; cov = None\n"
            "try:\n"
            "    import coverage\n"
            "    cov = coverage.Coverage(data_file=None, include=anchors, config_file=False) if anchors else None\n"
            "    cov and cov.start()\n"
            "except Exception:\n"
            "    cov = None\n"
            "m = importlib.import_module('props.%s')\n"
            "r = m.impl_main(json.load(open(%r))); json.dump(r, open(%r, 'w'))\n"
            "if cov:\n"
            "    try:\n"
            "        cov.stop(); out = {}\n"
            "        for f in anchors:\n"
            "            a = cov.analysis2(f); out[f] = [sorted(a[1]), sorted(a[3])]\n"
            "        json.dump(out, open(%r, 'w'))\n"
            "    except Exception as e:\n"
            "        json.dump({'error': repr(e)}, open(%r, 'w'))\n"
            % (os.path.join(VERIF, "tools"), anchors, module, fin, fout, fcov, fcov))
    rc, out, wall = sh([PY, "-c", code], timeout=timeout, env=impl_env(), cwd=work)
    res = None
    if rc == 0 and os.path.exists(fout):
        res = json.load(open(fout))
    if os.path.exists(fcov):
        try:
            for f, pair in json.load(open(fcov)).items():
                if f == "error":
                    continue
                stmts, missing = pair
                c = ANCHOR_COVERAGE.setdefault(os.path.relpath(f, REPO), dict(statements=set(), executed=set()))
                c["statements"] |= set(stmts)
                c["executed"] |= set(stmts) - set(missing)
        except Exception:
            pass
    for f in (fin, fout, fcov):
        if os.path.exists(f):
            os.remove(f)
    return rc, res, out, wall


def ranges(xs):
    """[1,2,3,7,9,10] -> '1-3,7,9-10'"""
    out, xs = [], sorted(xs)
    i = 0
    while i < len(xs):
        j = i
        while j + 1 < len(xs) and xs[j + 1] == xs[j] + 1:
            j += 1
        out.append(str(xs[i]) if i == j else "%d-%d" % (xs[i], xs[j]))
        i = j + 1
    return ",".join(out)


def anchor_coverage_summary():
    files, tot, hit = {}, 0, 0
    for f, c in sorted(ANCHOR_COVERAGE.items()):
        n, e = len(c["statements"]), len(c["executed"] & c["statements"])
        tot, hit = tot + n, hit + e
        files[f] = dict(statements=n, executed=e, never_executed_lines=ranges(c["statements"] - c["executed"]))
    return dict(what="statement coverage (coverage.py, main process and threads) of the files the property is anchored in, "
                     "union over every implementation run of this check; statements never executed were reached by "
                     "neither the correspondence nor the oracle",
                statements=tot, executed=hit, files=files)


# ---------------------------------------------------------------- findings / evidence
def load_findings(pid):
    kf = json.load(open(os.path.join(VERIF, "known_findings.json")))
    return [f for f in kf.get("findings", []) if f["property"] == pid]


def write_replay(pid, obj):
    rdir = os.path.join(VERIF, "replay")
    os.makedirs(rdir, exist_ok=True)
    blob = json.dumps(obj, indent=1, sort_keys=True, default=str)
    h = hashlib.sha1(blob.encode()).hexdigest()[:10]
    path = os.path.join(rdir, "%s-%s.json" % (pid, h))
    open(path, "w").write(blob)
    return path


def write_evidence(pid, tier, seed, coverage, assumptions, wall, violations):
    os.makedirs(os.path.join(VERIF, "evidence"), exist_ok=True)
    ev = dict(property_id=pid, tier=tier, seed=int(seed), level="proof", coverage=coverage,
              assumptions=assumptions, wall_s=round(wall, 2), violations=int(violations))
    path = os.path.join(VERIF, "evidence", pid + ".json")
    json.dump(ev, open(path, "w"), indent=1, default=str)
    return path


class Report:
    """collects what a check found; decides exit status and prints the lines the harness reads"""

    def __init__(self, pid, tier, seed):
        self.pid, self.tier, self.seed = pid, tier, seed
        self.t0 = time.time()
        self.violations = []      # (replay_obj, has_input)
        self.known = []
        self.coverage = dict(evaluations=0, distinct_nontrivial=0, samples=[], rule="")
        self.assumptions = []
        self.notes = []

    def violation(self, what, replay, has_input=True):
        self.violations.append((what, replay, has_input))

    def finish(self, proof):
        cov = self.coverage
        cov["obligations"] = proof.get("obligations", 0)
        cov["discharged"] = proof.get("discharged", 0)
        cov["theorems"] = proof.get("theorems", [])
        cov["axioms_reported_by_Print_Assumptions"] = proof.get("axioms", [])
        cov["checker_cmd"] = "coqc -Q coq Bingo coq/Properties/%s.v (after make of its dependencies; Coq 8.16.1, full .vo build)" % self.pid
        cov.setdefault("trusted_base", [])
        cov["trusted_base"] = list(cov["trusted_base"]) + [
            "Coq 8.16.1 kernel incl. vm_compute (no native_compute)",
            "axioms: " + (", ".join(proof.get("axioms", [])) or "none (closed under the global context)"),
            "hand-written correspondence harness tools/props/%s.py and tools/vlib.py" % self.pid.lower(),
        ]
        cov["notes"] = self.notes
        if ANCHOR_COVERAGE:
            cov["anchored_code_coverage"] = anchor_coverage_summary()
        rc = 0
        for k in self.known:
            print("KNOWN-FINDING: property=%s %s" % (self.pid, k))
        for what, replay, has_input in self.violations:
            path = write_replay(self.pid, dict(property=self.pid, what=what, replay=replay,
                                               seed=self.seed, tier=self.tier))
            print("VIOLATION property=%s replay=%s%s" % (self.pid, path, "" if has_input else " no-failing-input-found"))
            rc = 1
        write_evidence(self.pid, self.tier, self.seed, cov, self.assumptions,
                       time.time() - self.t0, len(self.violations))
        return rc

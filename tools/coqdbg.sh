#!/bin/bash
# usage: coqdbg.sh <file.v relative to coq/> <line>  -- shows the goal before the tactic sentence starting on that line
f=$1; n=$2
cd /verif/coq
awk -v n=$n 'NR==n{print "Show."} {print}' $f > /tmp/dbg_$$.v
cd /tmp && timeout 300 coqc -Q /verif/coq Bingo dbg_$$.v 2>&1 | grep -v conda | tail -${3:-40}
rm -f /tmp/dbg_$$.*

"""Run /repo's pinned suite (guard off) and compare with /root/.vp/BASELINE.json stable_pass."""
import json, os, subprocess, sys, tempfile, xml.etree.ElementTree as ET
repo = sys.argv[1] if len(sys.argv) > 1 else "/repo"
base = json.load(open("/root/.vp/BASELINE.json"))
fd, path = tempfile.mkstemp(suffix=".xml"); os.close(fd)
env = dict(os.environ); env.pop("NASA_BINGO_VERIF", None); env["PYTHONPATH"] = repo
subprocess.run(["/venv/bin/python", "-m", "pytest", "-q", "-p", "no:cacheprovider", "--timeout=900",
                "--continue-on-collection-errors", "--junitxml=" + path], cwd=repo, env=env,
               stdout=subprocess.DEVNULL, stderr=subprocess.DEVNULL)
passed = set()
for tc in ET.parse(path).getroot().iter("testcase"):
    if not any(c.tag in ("failure", "error", "skipped") for c in tc):
        passed.add(tc.get("classname") + "::" + tc.get("name"))
os.remove(path)
missing = [t for t in base["stable_pass"] if t not in passed]
print("stable_pass %d, passing now %d, missing %d" % (len(base["stable_pass"]), len(passed), len(missing)))
for t in missing[:20]:
    print("  MISSING", t)
sys.exit(1 if missing else 0)

"""Writes MANIFEST.json from the table below (kept in one place so it stays valid)."""
import json, os
HERE = os.path.dirname(os.path.dirname(os.path.abspath(__file__)))
CHECKS = {}
def add(pid, text, note, technique, ref=None):
    CHECKS[pid] = dict(
        property_id=pid,
        quick_cmd="./check %s --tier quick" % pid,
        thorough_cmd="./check %s --tier thorough" % pid,
        evidence_file="/verif/evidence/%s.json" % pid,
        replay_cmd_template="./check %s --replay {path}" % pid,
        engine="coq-proof+correspondence",
        level_claimed=dict(category="proof", text=text, design_ref="DESIGN.md §" + (ref or pid)),
        level_note=note, technique=technique)

add("C10",
    "Coq theorems over an executable model of HallOfFame/ParetoFront (bisect_right binary search, eviction, "
    "domination filter): for every update history the hall holds exactly the smallest non-NaN keys offered, sorted, "
    "ties in arrival order, fresh copies; for every interleaving of update/insert/remove/clear (NaN keys and capacity 0 "
    "included) the ordering/NaN/freshness invariant holds; the Pareto front is a permutation of the non-dominated offers and an antichain. "
    "The Pareto dominance test is TRANSLATED from the current source on every run (tr_pareto.py -> Gen/ParetoRule.v) and proved equal to the model's. "
    "The model is tied to bingo/stats/*.py by running both on the same generated operation histories and comparing "
    "inside Coq (vm_compute).",
    "Trusted: Coq kernel + vm_compute; the order embedding of non-NaN floats into Z; deepcopy = fresh id; the "
    "Python harness. Manual inserts of NaN keys and capacity 0 are part of the histories (findings F12a/F12b, fixed). Axiom-free.",
    "Rocq/Coq proof by induction over operation histories + translator for the dominance test + differential correspondence")

add("C15",
    "Coq theorems over an executable model of the NaN-aware best-individual scan (Island, SerialArchipelago), of Python's "
    "min(key=fitness) (ParallelArchipelago) and of the predictor island's re-labelling with full-data fitness: the returned "
    "individual is a member, nobody is strictly fitter, NaN is reported only if every member of every island is NaN. The replacement test of both scans is TRANSLATED from the current source on every run (tr_best.py -> Gen/BestRules.v, scan shape pinned) and proved to be the model's. Tied to "
    "the code by correspondence on generated fitness layouts (which slot is returned, compared inside Coq) and by real "
    "FitnessPredictorIsland runs whose reported fitness values are compared bit-for-bit with an independent full-data evaluation.",
    "Trusted: Coq kernel; order embedding of floats into Z; the harness. The parallel archipelago is only pinned at source "
    "level (mpi4py absent) and its full statement is refuted (known finding F7b). The predictor-island theorem treats the "
    "full-data fitness as an abstract function of the genome; what ties it to bingo is the per-generation comparison. Axiom-free.",
    "Rocq/Coq proof (scan invariant) + translator for the scan test + differential correspondence + real predictor-island runs")

add("C08",
    "Coq theorems over an executable model of AgeFitness (while loop, index sampling as an oracle tape, removal-set scan with "
    "early exit, in-place swaps), Tournament and DeterministicCrowding: the caller's list is only permuted and the result is a "
    "prefix of it with target <= size <= input; every index a scan removes is NaN or dominated by a sampled index that survives "
    "the scan (transitivity handles a dominator removed earlier in the same scan); a tournament winner is a least-fitness member "
    "of its own sample; crowding replaces a parent only by its distance-paired strictly better child; ProbabilisticTournament and "
    "ProbabilisticCrowding (Model/SelectionProb.v, float arithmetic recorded as an oracle): exactly target winners, each a member of "
    "its own sample; a slot holds its parent or the paired child for every coin, the child for a NaN parent, the parent for a NaN child. The decision rules (domination test, removal-set update, most-fit choices, NaN guards, tournament replacement test) are TRANSLATED from the current source on every run (tr_selection.py -> Gen/SelRules.v) and proved equal to the model's. Tied to bingo/selection by "
    "replaying the recorded random draws of real calls through the model (compared inside Coq).",
    "Trusted: Coq kernel; order embedding of fitness/age into Z; np.random.choice on a list picks list[i] for the indices drawn; "
    "the harness. The swap-to-end index argument (survivors stay in the live prefix) is proved in Proofs/ElitismProofs.v and used for C09; "
    "the age component of 'dominated by a survivor' across scans is covered by the oracle. Probabilistic variants: the searchsorted index and the coin are recorded oracles; without log scale a non-positive evidence is outside their domain. Axiom-free.",
    "Rocq/Coq proof (loop invariants over all tapes) + translator for the decision rules + tape-replay correspondence")

add("C11",
    "Coq theorems over an executable model of SerialArchipelago migration (shuffled index list read pairwise, each partner "
    "shuffles and dumps int(round(0.5*len)) individuals - Python's round-half-to-even written out - and appends what it "
    "receives, reset_fitness on both) and of Archipelago/Island._do_evolution's age bookkeeping: the pairing is a matching with "
    "exactly n mod 2 islands sitting out, the multiset of individuals is conserved, equally sized islands keep their size, "
    "participants are all marked for re-evaluation and the others are untouched, evolve(n) adds exactly n to every age - for all "
    "island counts, sizes and shuffle outcomes. Parallel case: a model of ParallelArchipelago._get_migration_partner and the "
    "theorem that for every legal shuffle the partners form a matching (partner of partner = self, at most one rank idle, only "
    "for odd n, the one the serial pairing leaves out), and a transition system of the exchange phase (lookup+dump+buffered send, "
    "receive) with theorems for every interleaving: no reachable state stuck, final layout = kept + partner's dump, no message "
    "left, individuals and equal sizes conserved, participants re-flagged. Tied to the code by replaying the recorded np.random.shuffle outcomes of real "
    "SerialArchipelago.evolve calls through the model (compared inside Coq) and by calling the real partner lookup for every rank "
    "of every shuffle of up to 5 ranks with a stub communicator, and by replaying real _coordinate_migration_between_islands runs on "
    "the mpi4py stand-in (recorded shuffle, dumps, send/receive order) through the transition system.",
    "Trusted: Coq kernel; np.random.shuffle permutes in place (the harness records the permutation); the harness. The islands' "
    "evolutionary algorithm is an abstract function in the age theorem and the identity in the correspondence runs. The parallel "
    "archipelago runs on the deterministic mpi4py stand-in (real MPI progress semantics are not exercised; buffered sends are the "
    "model's premise). Axiom-free.",
    "Rocq/Coq proof (counting argument over all shuffles) + tape-replay correspondence")

add("C14",
    "Coq theorems over an executable model of evolve_until_convergence and CheckpointController (minimum-generation loop, ordered "
    "exit criteria, weighted generation speed, time-aware round length with int() truncation over exact rationals) against an "
    "arbitrary oracle for the per-round duration, best fitness (NaN allowed) and evaluation count, for arbitrary prior state "
    "(repeated calls): the call always returns; ngen = generations evolved >= minimum; the status names a criterion that holds at "
    "return; success <-> best <= threshold; a round starts only below max generations and only after a check that found no "
    "criterion met. Constants (0.98, [4,2,1], 0.25, status order, fall-through status) are regenerated from the source on every run; "
    "the logic is tied by running the real method on a scripted optimizer with the same oracle and comparing inside Coq.",
    "Trusted: Coq kernel; tr_consts.py; the harness (scripted subclass, replaced datetime). Modelled, not verified: the clock "
    "advances only inside evolve calls; doubles are exact rationals (cases that flip under a 1e-7 perturbation of max_time are "
    "excluded from the exact comparison and counted); a zero generation speed is an error outcome excluded by the statements. Axiom-free.",
    "Rocq/Coq proof (loop invariants against an arbitrary oracle) + translator for constants + differential correspondence")

add("C12",
    "Coq transition system of one non-blocking ParallelArchipelago.evolve call over n >= 1 ranks (one transition per communicator "
    "call or evolve slice: rank 0's loop, gather, exit notifications, barrier, final drain; the helpers' report/probe/evolve "
    "cycle), schedules = arbitrary lists of ranks. Proved for every n, sync frequency, target, initial ages and schedule: a "
    "13-clause protocol invariant holds in every reachable state; no reachable state is stuck (deadlock freedom); in the final "
    "state no AGE_UPDATE message is pending and no EXIT_NOTIFICATION anywhere (clean exit, so the next call starts clean); the "
    "island ages sum to at least n*(generational_age + num_steps); every reported or in-flight age is a lower bound of the "
    "sender's age; from EVERY reachable state some continuation lets every rank return (lexicographic measure, no trap). "
    "Under every interleaving rank 0 goes round its loop at most deficit-many times (reported ages only grow); under the pacing "
    "premise made precise as paced rounds (every rank a turn, helpers fewer than n turns, rank 0 at least 2*helper turns+1) every "
    "continuation of Omega(state) rounds from every reachable state completes the call, 4*n*target+6n(n+5)+20n+2 rounds from the "
    "start; once rank 0 has left its loop every round-robin continuation completes within Phi(state) rounds with no pacing "
    "premise (potential arguments over all steps of all ranks). PARTIAL: fairness weaker than rounds is not covered. Tie: the real "
    "ParallelArchipelago (real Island, hall of fame, migration, closing collectives) runs on a deterministic stand-in for mpi4py "
    "(tools/vendor/mpi4py: threads + choice-driven scheduler, buffered isend); the call sequence of every non-blocking call is "
    "replayed through the model (same calls in the same order, same final ages, empty mailboxes); oracle on the real run: no "
    "deadlock, return on all ranks, no stale message, age targets (blocking: exactly n per island), all ranks agree on best "
    "fitness / evaluation count / age / hall of fame, best = min over islands.",
    "Trusted: Coq kernel + vm_compute; the mpi4py stand-in (mpi4py itself is not installed: real MPI progress semantics are not "
    "exercised; buffered delivery is the property's premise); schedules used by the harness give every generation slice 4n+2 "
    "scheduler steps (non-flooding premise). F13 (repeated non-blocking calls advance the mean age by fewer than n generations "
    "when helpers are ahead) is a known finding. Axiom-free.",
    "Rocq/Coq proof (invariant for all ranks and schedules) + trace correspondence on a deterministic MPI stand-in")

add("C13",
    "PARTIAL. Clause (a), rotation and crash-safety, is a set of Coq theorems over a model of _update_checkpoints / "
    "_remove_stale_checkpoint / dump_to_file as atomic file steps (open tmp, finish, rename, remove): after the first checkpoint "
    "of a call is complete every crash point leaves a complete checkpoint, a later call's re-write keeps the old file complete, "
    "only the call's own files are ever touched or deleted, at most n remain - for every directory content, retention count >= 1 "
    "and number of rounds. The file operations of one checkpoint, the over-the-limit test and the oldest-first removal are emitted by a translator that pins the statements of the three methods (tr_checkpoint.py -> Gen/CheckpointRules.v) and the model's ckpt_ops is proved to be built from exactly those. The model is also tied to the code by injecting a crash before every file step and inside every write of "
    "real checkpointed runs and comparing which files are absent / unloadable / loadable (inside Coq). Clause (b), lossless and "
    "transparent dump/load, is NOT proved: dill is outside any model; it is covered by a dump-load-continue differential test only.",
    "Trusted: Coq kernel; atomicity of os.replace and of the four step kinds; the harness's wrappers around open/dill/os. "
    "num_checkpoints=0 is a known finding (F14b). ParallelArchipelago's own dump_to_file/_remove_stale_checkpoint are not "
    "exercised (mpi4py absent). Clause (b) is a test, labelled as such in the evidence. Axiom-free.",
    "Rocq/Coq proof over all crash prefixes + translator/pin for the file operations + fault-injection correspondence; differential test for the dill clause")

add("C18",
    "Coq theorems over a store-based model of AGraph objects (arrays are cells, objects hold references to a raw and a cached "
    "array, an immutable constant tuple and flags): for ANY history of setter writes, row writes through a fresh mutable view, "
    "constant writes, observations, fitness/age writes and copies on ANY number of objects, with reduce_stack/simplify_stack an "
    "ARBITRARY function - every observation equals that of a freshly constructed equation with the same stack, flag and "
    "constants; the cache is coherent whenever the modified flag is down; both write paths install the written stack, raise the "
    "flag and clear fitness; a copy equals its source field by field at copy time; operations on other objects (source, copy, "
    "copies of copies) never change an object's arrays, constants, flags, fitness, age or observations (reference disjointness "
    "is an invariant). Tie: random histories on real AGraph objects, white-box state after every step compared with the model "
    "inside Coq (reduce_stack = the C01 model; simplify_stack = recorded table, checked to be a function); oracle: every "
    "observation against a fresh AGraph, all other objects unchanged after every operation, copy observes like its source.",
    "Trusted: Coq kernel + vm_compute for the comparison; S abstract (its own correctness is C01/C03); numpy array identity is "
    "modelled by store references (views other than a freshly obtained mutable_command_array are outside the model); wrong-length "
    "constant writes outside the property; string constructor covered by scripted scenarios (F18 fixed). Axiom-free.",
    "Rocq/Coq proof (for all histories, all S) + white-box differential correspondence")

add("C19",
    "Coq theorems over an executable model of Evaluation (_serial_eval, _multiprocess_eval with _fitness_job on pickled copies and "
    "the counter-delta protocol), of the eval_count delegation through LocalOptFitnessFunction, and of the per-island counters of "
    "an archipelago, generic in the genome type, the fitness function and an arbitrary local-optimisation oracle: every due "
    "individual ends up flagged with the fitness of its current genome, others are untouched, slot order/identity preserved "
    "(copies in the multi-process case), and the reported count grows by exactly the number of real invocations, in the parent "
    "or inside the workers; with a fitness function that may raise (arbitrary predicate of the genome) a phase that returns has "
    "evaluated and counted every due individual, and serial and worker-process evaluation fail to return on exactly the same "
    "populations. The due test is TRANSLATED from evaluation.py on every run and proved equal to the model's; the statement sequence of the "
    "counter-delta protocol is pinned by the same translator (tr_evalphase.py). Tied to the code by running real Evaluation objects (real LocalOptFitnessFunction, worker pools) on "
    "generated flag patterns and comparing inside Coq, with a cross-process independent invocation counter.",
    "Trusted: Coq kernel; pickling = independent copy; Pool results consumed in submission order; the harness. Island / archipelago "
    "evolution histories (scipy local optimisation, 2 workers, RandomSubsetEvaluation) are checked against the independent counter "
    "after every evolve - that part is a test, the theorem covers one phase and the summation. Axiom-free.",
    "Rocq/Coq proof (generic model, any optimizer oracle) + translator/pin for the evaluation loops + differential correspondence with an independent counter")

add("C16",
    "Coq model of the sympy printer (translated templates) and of the parser at character level (bad-substring test, the two "
    "replaces, both unary-minus regex substitutions incl. the look-behind one, padding, split, lower), token classification "
    "(float() as oracle), shunting-yard and command-array builder with the command dictionary. Theorems: for every printed tree "
    "(any size, any nesting) the shunting-yard returns the postfix form of the tree with +/- chains re-associated to the left; "
    "the builder returns a command array whose LAST row denotes exactly the postfix tree, constants being the literals in textual "
    "order; the recovered tree means the printed tree in every algebra where a+(b+c)=(a+b)+c and a+(b-c)=(a+b)-c; at "
    "character level the row-by-row printer prints the denoted tree and the tokenizer maps that string to exactly the printed "
    "tokens, so print -> parse is proved end to end for every scoped stack over the template operators with finite constants. "
    "With simplification the round trip is REFUTED by a witness (known finding F3). Tie: tr_strings.py (templates, tables, pinned regex sources and tokenizer "
    "statement order) + correspondence inside Coq: printer char by char, tokenizer and full parser on printed strings, strings "
    "printed by sympy, character-level mutations and a malformed list; oracle: print -> AGraph(equation=) -> evaluate with and "
    "without simplification, AGraph(equation=str(sympy expr)) vs sympy.lambdify.",
    "Trusted: Coq kernel + vm_compute; str(float)/float() as oracles; ASCII model of \\s \\d \\w and str.lower; tr_strings.py; "
    "float re-association of + chains is outside (tolerance 1e-9 in the oracle, stated as algebraic laws in the theorem). "
    "F2 (-2**X_0) fixed in 79d7908; F3 (literals re-bound after simplification) is a known finding. Axiom-free.",
    "Rocq/Coq proof (for all printed trees) + differential correspondence of printer/tokenizer/parser")

add("C17",
    "PARTIAL. (a) Coq theorem: for every population, flag pattern, optimizer oracle and completion order, multi-process "
    "evaluation leaves the same genome, fitness and flag in every slot and reports the same count as serial evaluation; tied to "
    "Evaluation._multiprocess_eval by running both on the same populations with scrambled worker completion order. (b) The only "
    "hash-seed dependent construct found in the fit path (iteration over a set of operator names) is modelled; after fix F8 the "
    "registration is sorted and proved independent of the enumeration order. That nothing else varies between interpreter "
    "processes is NOT a theorem: fits are repeated in fresh processes under 6 PYTHONHASHSEEDs and compared (test).",
    "Trusted: Coq kernel; pickling = copy; the harness. Clause (b) beyond the operator table is a subprocess test. Under local "
    "optimisation fitness values depend on random starting points, so reproducibility is for a fixed random_state only. Axiom-free.",
    "Rocq/Coq proof for clause (a) and the operator-table clause; subprocess differential test for the rest of (b)")

add("C03",
    "Coq model of the computer-algebra pipeline (Expression equality and the five-way ordering, every rule of "
    "automatic_simplification.py incl. the mutually recursive product/sum/power merging, the optional modifications, both "
    "interpreter translations with the command dictionary and balanced n-ary splitting) - all stages but fold_constants, which is "
    "an oracle. Proved for all inputs: reduction keeps the expression and has one row per utilized command (C01 theorems); "
    "build_cas_expression means the stack; build_agraph_stack returns a scoped stack whose LAST row, after AGraph's constant "
    "renumbering, means the expression; insert_subtraction/replace_integer_powers preserve the value; automatic_simplify REFINES "
    "the expression pointwise over the reals (values in option R with strict operations: wherever the original is a finite real the "
    "result is the same real) whenever the three power identities are applied to integer exponents only - proved through 32 "
    "identities/refinements that are themselves proved for that algebra (Proofs/CasReal.v); the integer-exponent guard provably "
    "never fires on expressions whose power nodes carry integer-leaf exponents, in particular on every stack without power "
    "operators, so for those the headline theorem speaks about the model of the code as written: at every point and constant "
    "setting where the ORIGINAL STACK evaluates to a finite real, the simplified expression evaluates to the same real. "
    "PARTIAL (named _partial): the whole pipeline is a refinement relative to the contract of fold_constants; for non-integer "
    "exponents only 'rewrites by the listed identities read unconditionally', a reading proved degenerate (0 = 1); the property's "
    "'both finite, generic constants' clause for power operators, termination (fuel) and floating point are covered by the "
    "oracle only. The merge functions' shape assumption is a model flag (chk) that the correspondence exercises; where the checked "
    "model answers, the unchecked one provably gives the same answer. Tie: every stage of the real simplify compared with the "
    "model as trees/arrays, with the guard switched on exactly for power-free stacks; oracle: well-formedness, no more constants, "
    "10 s alarm, pointwise agreement of constant-free stacks at admissible points, constant fitting for polynomial stacks.",
    "Trusted: Coq kernel + vm_compute; the standard library's real-number axioms (ClassicalDedekindReals.sig_forall_dec, "
    "sig_not_dec, Classical_Prop.classic, FunctionalExtensionality.functional_extensionality_dep) for the theorems over R only; "
    "fold_constants as an oracle; numpy evaluation in the oracle with tolerances 1e-6 (pointwise) / 1e-7 (fits); option R ignores "
    "rounding and overflow. F15 (SAFE_POWER simplified as POWER) fixed in 18430d3.",
    "Rocq/Coq proof (full for reduction/interpreter/optional modifications and for the rewrite core on integer exponents, as a "
    "pointwise refinement over the reals; named partial for the pipeline and for general exponents) + stage-wise differential "
    "correspondence + numeric oracle")

add("C04",
    "Coq theorems over a tape model of ComponentGenerator / AGraphGenerator / the five AGraphMutation kinds (command, node, "
    "parameter, prune, fork with _move_utilized_commands, _fix_indices incl. np.vectorize's probing call, _insert_fork in both "
    "the arity-2 and the arity-1-only variant, _get_arity_operator) / AGraphCrossover: for EVERY tape of random draws, every "
    "configuration whose operator items are operators, every size and every well-formed parent, each call that returns yields "
    "a genome of the configured size whose operator rows reference earlier rows only, whose variables exist and whose operators "
    "are enabled ones; closure over all histories of variations; such a genome renumbered is a C01-well-formed stack; an "
    "unwritten child is its parent's stack; all loops are structurally bounded by the code's own (translated) attempt bounds "
    "except parameter mutation's, which provably has an exiting draw at every iteration; on the C18 object model: a mutation "
    "(copy + any row writes to the copy) leaves the parent's every field intact, keeps the age, and clears the evaluated flag "
    "iff something was written; crossover leaves both parents intact and sets both ages. Tie: tr_variation.py (attempt bounds, "
    "dispatch order, PMF items, cut range, presence of the loop bounds) + real operators run with every random source recorded, "
    "tape replayed through the model inside Coq (same children, same write flag, exactly the recorded draws consumed); oracle "
    "on the real objects (well-formedness, parents byte-identical, ages, flags, evaluate/print/simplify, 5 s alarm).",
    "Trusted: Coq kernel + vm_compute; the tape abstraction of numpy/random (any in-range value); tr_variation.py; calls that "
    "raise (empty operator set, crossover of < 3 rows, variables with 0 columns) produce no equation and are outside the "
    "statement; F10 (unbounded rejection loops) fixed in dbd81ea. Axiom-free.",
    "Rocq/Coq proof (for all tapes, configurations, parents) + recorded-tape differential correspondence")

add("C05",
    "Coq theorems over a model of the generational pipeline (VarOr/VarAnd/AddRandomIndividuals flag handling, non-redundant "
    "evaluation possibly through local optimisation, the five generational_step variants, EaDiagnostics.update and the selections "
    "as READERS of stored fitness, Island steps / fitness resets / regeneration / migration arrivals / best-individual and "
    "hall-of-fame reads with the evaluate-first guard of fix F23, and archipelagos of any number of islands exchanging members), generic in genome and "
    "fitness types with variation and selection outcomes as arbitrary oracles: from any flag pattern no phase ever reads a missing or "
    "stale fitness and every flagged individual carries the fitness of its current genome, for every history. Tied to the code by "
    "replaying real generational steps of all five algorithms through the model (comparing the next generation's genome/stored "
    "fitness/flag triples inside Coq), replaying every other island-level operation and both sides of real SerialArchipelago "
    "migrations from the real state before them, a class-level read monitor and an independent recomputation of every flagged fitness.",
    "Trusted: Coq kernel; determinism of the fitness function; the harness's class-level instrumentation. The operators' own "
    "behaviour (children get the flag cleared) enters the model as the shape of the oracle (ONew has flag false) and is tied by the "
    "correspondence and by C04. AGraph/local-optimisation islands and serial archipelagos are monitored, not replayed through the "
    "model. Parallel archipelago and predictor island are outside this model. Axiom-free.",
    "Rocq/Coq proof (invariant over all histories and oracles) + phase-trace correspondence + read monitor")

add("C09",
    "Coq theorems: for the age-fitness selection model (all selection sizes, targets and draws) and for deterministic crowding "
    "every non-NaN member of the input is matched by a survivor whose fitness is no larger - this needs the index argument that "
    "individuals not chosen for removal stay inside the shrinking live prefix while removed ones are swapped to the tail "
    "(swap_removals_survivors) and the per-scan justification of C08; the relation composes over generations, permutations "
    "(migration, C11) and unions over islands; the hall of fame's first entry bounds every non-NaN key ever offered (from C10). "
    "Tie: the C08 correspondence is re-run for the covering clause, and real seeded evolutions (islands and serial archipelagos, "
    "NaN-producing fitness) are monitored generation by generation.",
    "Trusted: Coq kernel; the C08/C10/C11 ties; C05 for 'candidates carry their true fitness' (deterministic fitness). The "
    "composition 'one generational step of AgeFitnessEA / GeneralizedCrowdingEA = evaluate, then this selection on parents ++ "
    "offspring' is read off the code and exercised by the monitor, not re-proved as one model. mu+lambda with tournament selection "
    "is not elitist and not claimed. Axiom-free.",
    "Rocq/Coq proof (corollaries over the C08/C10/C11 models) + monitor over real evolutions")

add("C20",
    "Coq theorems over exact rationals about the TRANSLATED Gram-polynomial weight functions (regenerated from "
    "implicit_regression.py on every run) and a model of _savitzky_golay_gram / _calculate_partials / the implicit fitness: the "
    "recursion fuel is never exhausted; the centre column is [22,-67,-58,0,58,67,-22]/252; every one of the 7 columns returns the "
    "exact derivative of any cubic (ring); the filter never indexes outside a trajectory of >= 7 samples and is exact at every "
    "sample of a cubic; _calculate_partials keeps rows start+3..end-5 of each NaN-separated trajectory and returns exactly the "
    "derivatives of each trajectory's own cubic; trajectories are isolated; the fitness lies in [0,1], is invariant under scaling "
    "the equation by any non-zero constant and is 0 for an exact invariant. Tie: translator for the weight functions, index "
    "regimes and trimming constants; correspondence of the whole pipeline on integer data (252*dx_dt compared exactly inside Coq).",
    "Trusted: Coq kernel + vm_compute (the weight table is computed in Coq from the translated functions); tr_sg.py; the harness. "
    "'Exactly' is over Q: float64 rounding of weights and sums is not modelled. required_params and non-default metrics are outside "
    "the model. Axiom-free (no real-number axioms needed).",
    "Rocq/Coq proof over Q (ring/field, induction over segments) on a translated model + differential correspondence")

add("C07",
    "Coq theorems (Coquelicot is_derive over R) about the TRANSLATED metric functions and metric derivatives (regenerated from "
    "fitness_function.py / gradient_mixin.py on every run, so a changed sign, factor or pairing breaks the proof): each of "
    "MAE/MSE/RMSE/negative-NMLL-Laplace equals its textbook formula; MAE/MSE/RMSE are >= 0 and 0 on a zero residual; the "
    "derivative function paired with each metric is the derivative of that metric with respect to any constant, given the "
    "residual Jacobian (side conditions: no zero residual for MAE, positive MSE for RMSE/NMLL); the residual/Jacobian assembly "
    "(absolute and relative) preserves 'is the derivative of'; with use_linear_correction the returned Jacobian is the derivative of "
    "the corrected residual for the slope and intercept linregress returned held fixed (an oracle; theorem named _partial: not the "
    "total derivative through the regression); each public entry point adds exactly one to the counter. Tie: "
    "translator for the 8 functions; correspondence of the assembly and counter on integer data (exact fractions, inside Coq); "
    "oracle with independent formulas and finite differences on real AGraph equations, also after a training-data swap.",
    "Trusted: Coq kernel; axioms of the standard-library reals and what Coquelicot pulls in (ClassicalDedekindReals.sig_not_dec, "
    "sig_forall_dec, FunctionalExtensionality.functional_extensionality_dep, Classical_Prop.classic); tr_metrics.py; the harness. "
    "Not modelled: float rounding; scipy.stats.linregress is an oracle. That the model Jacobian df/dc is right is C02.",
    "Rocq/Coq proof over R on a translated model + translator + differential correspondence + finite-difference oracle")

add("C01",
    "Coq theorems, valid over ANY algebra of values (reals, IEEE doubles, symbolic terms): the forward pass - built from the 17 "
    "per-operator rules TRANSLATED from operator_eval.py on every run - computes row by row the value of the expression the row "
    "denotes (shared rows computed once, equal to the duplicated tree); evaluation returns one value per data row; "
    "get_utilized_commands marks a set that contains the last command and is closed under operands; reduce_stack yields a stack "
    "that denotes the SAME expression tree with as many rows as utilized commands; commands the result does not depend on never "
    "influence it. Tie: translator (rules, node tables); the REAL numpy backend run on dtype=object arrays of symbolic values "
    "must produce exactly the model's term; polynomial stacks on integer data; utilized/reduce as integer lists; oracle against "
    "an independent recursive float evaluator (values, non-finite where undefined, (M,1) shape, NaN column when Python raises).",
    "Trusted: Coq kernel; tr_opeval.py; the harness. 'To floating-point accuracy' and 'overflow gives non-finite' are NOT "
    "theorems: numpy/libm elementwise semantics and IEEE rounding are outside the model; what is proved is that bingo's own glue "
    "adds nothing to the operator-by-operator composition. The try/except path of AGraph.evaluate_equation_at (fix F9) and "
    "_reshape_output's broadcasting are covered by the correspondence and oracle only. Axiom-free.",
    "Rocq/Coq proof (generic algebra, induction over the stack) on a translated model + symbolic differential correspondence")

add("C02",
    "Coq theorems over the reals (Coquelicot) about reverse-mode differentiation built from the 17 adjoint rules TRANSLATED "
    "from operator_eval.py on every run: (i) each rule distributes the row's adjoint times the local partials of its operator "
    "(algebra, field/ring); (ii) the local partials are the operators' partial derivatives (calculus); (iii) the backward sweep "
    "maintains 'column + sum of adjoint x tangent = tangent of the root', so the derivative row it returns is the forward-mode "
    "tangent of the expression tree; hence, for every well-formed stack (any length, sharing, repeated loads, p1 = p2) and every "
    "point where all operators on the path are differentiable, the value returned with a gradient is the plain evaluation and "
    "each gradient column w.r.t. inputs or constants IS the partial derivative (is_derive); an input/constant no command loads "
    "gets exactly zero over any algebra. Tie: translator; exact integer correspondence of the sweep on polynomial stacks; "
    "finite-difference oracle over all 14 operators at admissible points.",
    "Trusted: Coq kernel; real-number axioms (ClassicalDedekindReals.sig_not_dec, sig_forall_dec, "
    "FunctionalExtensionality.functional_extensionality_dep, Classical_Prop.classic via Coquelicot); tr_opeval.py; the harness. "
    "np.power is a^b = exp(b ln a) on positive bases (outside that open set nothing is claimed); float rounding not modelled. "
    "Stated for the stack as evaluated (AGraph passes reduced stacks): differentiability is required of every row. The exception "
    "branch of the two gradient entry points returns a value of the wrong shape (known finding F9b, pinned by an existing test).",
    "Rocq/Coq proof over R (chain-rule invariant of the sweep) on a translated model + exact integer correspondence + FD oracle")

add("C06",
    "Coq theorems over a model of LocalOptFitnessFunction.__call__, ScipyOptimizer.__call__ / _sub_routine_for_obj_fn / "
    "_run_method_for_optimization (incl. the TypeError -> BFGS fallback with method swap and restore) and "
    "EquationRegressor.fit's best-of-retries loop, with scipy as an ARBITRARY oracle (any sequence of trial vectors written into "
    "the individual, any final vector, TypeError or not): the value returned is the base fitness of exactly the constants held "
    "afterwards, the equation no longer requests optimisation, the method option is restored, the constants are the vector the "
    "optimizer returned; an equation that did not request optimisation is untouched and scipy is not consulted; refitting never "
    "returns a fitness worse than the first fit (NaN-aware) and the reported fitness belongs to the constants returned. Tie: the two statements of LocalOptFitnessFunction.__call__ and the eval_count/training_data delegation are pinned by a translator (tr_localopt.py -> Gen/LocalOptRules.v) and the model's wrapper is proved to be their interpretation; real "
    "wrapper runs with scipy.optimize wrapped to record the oracle, replayed through the model (compared inside Coq); bit-for-bit "
    "comparison with an independent base-fitness evaluation; scripted fitness sequences for the regressor loop.",
    "Trusted: Coq kernel; scipy as an oracle (it returns a vector of the length it was given); the harness's scipy wrapper. The "
    "constant count vs simplified expression clause is C18's lazy-update invariant. Axiom-free.",
    "Rocq/Coq proof (for all oracle behaviours) + oracle-replay correspondence")

NOT_APPLICABLE = []
def main():
    props = [json.loads(l)["id"] for l in open(os.path.join(HERE, "properties.jsonl"))]
    na = [dict(property_id=p, reason="check not built yet in this round (planned, see DESIGN.md)")
          for p in props if p not in CHECKS]
    m = dict(
        version=1,
        setup_cmd="cd /verif && ./setup.sh",
        hooks=dict(guard="NASA_BINGO_VERIF", enable="no source hooks: all instrumentation is monkeypatching inside the harness process; checks export NASA_BINGO_VERIF=1 for uniformity",
                   baseline_off_cmd="cd /repo && /venv/bin/python -m pytest -ra -q -p no:cacheprovider --timeout=900 --continue-on-collection-errors",
                   source_commits=[], add_only=True),
        engines=[dict(name="coq-proof+correspondence", path="/verif/check",
                      serves_properties=sorted(CHECKS),
                      kind_free_text="Coq 8.16 theorems over executable Gallina models; models tied to /repo by translators (coq/Gen) and by differential correspondence evaluated with vm_compute")],
        checks=[CHECKS[p] for p in sorted(CHECKS)],
        notes="See DESIGN.md. known_findings.json lists genuine defects of the pinned tree.",
        not_applicable=na)
    json.dump(m, open(os.path.join(HERE, "MANIFEST.json"), "w"), indent=1)
if __name__ == "__main__":
    main()

"""C20: implicit regression - Savitzky-Golay derivatives exact for cubics, scale-invariant fitness in [0,1]."""
import math
import random
from fractions import Fraction

import vlib

HEADER = """From Bingo Require Import Gen.SavGol Model.Implicit.
From Coq Require Import ZArith QArith List Bool.
Import ListNotations.
Definition q252 (v : Q) : Z := let r := Qred (v * (252 # 1)) in if (Zpos (Qden r) =? 1)%Z then Qnum r else (-999999)%Z.
Definition run_partials (c : list bool * list (list Z)) : list Z :=
  let '(mask, cols) := c in
  let res := map (fun col => partials_col mask (map inject_Z col)) cols in
  if forallb (fun r => match r with Some _ => true | None => false end) res then
    0%Z :: map Z.of_nat (retained_rows mask)
    ++ flat_map (fun r => match r with Some (xs, ds) => (-7777)%Z :: map q252 ds | None => [] end) res
  else [1%Z].
Definition run_fitness (rows : list (list Z)) : list Z :=
  match implicit_fitness (map (map inject_Z) rows) with
  | None => [1%Z]
  | Some v => let r := Qred v in [0%Z; Qnum r; Zpos (Qden r)]
  end.
Definition runner (c : Z * (list bool * list (list Z))) : list Z :=
  if (fst c =? 0)%Z then run_partials (snd c) else run_fitness (snd (snd c))."""
RUNNER = "runner"


def gen_partials(rng, malformed=False):
    D = rng.randint(1, 4)
    nseg = rng.randint(1, 5)
    rows, mask = [], []
    for s in range(nseg):
        L = rng.randint(8, 20) if not malformed else rng.choice([0, 1, 3, 6, 7, 8, 9])
        if not malformed and rng.random() < 0.04:
            L = rng.choice([64, 127, 128, 129, 200, 300])      # long trajectories: a size-dependent code path must not differ
        coef = [[rng.randint(-3, 3) for _ in range(4)] for _ in range(D)]
        cubic = rng.random() < 0.6
        for t in range(L):
            if cubic:
                # binomial basis: integer samples, but derivatives with halves and thirds
                rows.append([c[0] + c[1] * t + c[2] * (t * (t - 1) // 2) + c[3] * (t * (t - 1) * (t - 2) // 6) for c in coef])
            else:
                rows.append([rng.randint(-40, 40) for _ in range(D)])
            mask.append(False)
        if s < nseg - 1:
            rows.append([0] * D)
            mask.append(True)
            if malformed and rng.random() < 0.3:
                rows.append([0] * D)
                mask.append(True)
    if malformed and rng.random() < 0.3:
        rows.insert(0, [0] * D)
        mask.insert(0, True)
    return dict(kind=0, mask=mask, rows=rows, D=D, int_dtype=(rng.choice([0, 1, 2]) if not any(mask) else 0))


def gen_fitness(rng):
    n = rng.choice([1, 2, 4, 8])
    D = rng.randint(1, 4)
    rows = []
    for _ in range(n):
        T = rng.choice([1, 2, 4, 8, 16])
        d, left = [], T
        for j in range(D - 1):
            v = rng.randint(0, left)
            left -= v
            d.append(v * rng.choice([-1, 1]))
        d.append(left * rng.choice([-1, 1]))
        rng.shuffle(d)
        if rng.random() < 0.04:
            d = [0] * D
        rows.append(d)
    return dict(kind=1, rows=rows, D=D)


def coq_case(c):
    if c["kind"] == 0:
        cols = [[r[j] for r in c["rows"]] for j in range(c["D"])]
        return "(0, (%s, %s))" % (vlib.clist(c["mask"], vlib.cbool), vlib.clist(cols, vlib.clist))
    return "(1, ([], %s))" % vlib.clist(c["rows"], vlib.clist)


def impl_main(payload):
    import numpy as np
    from bingo.symbolic_regression.implicit_regression import ImplicitRegression, ImplicitTrainingData, _calculate_partials

    class Stub:
        def __init__(self, df):
            self.df = df

        def evaluate_equation_with_x_gradient_at(self, x):
            return np.zeros((x.shape[0], 1)), self.df

    results = []
    shared = {}
    for c in payload["cases"]:
        viol = []
        if c["kind"] == 0:
            x = np.array(c["rows"], dtype=float).reshape(len(c["rows"]), c["D"])
            for i, b in enumerate(c["mask"]):
                if b:
                    # a separator is any row CONTAINING a NaN: in every column, in some columns, or in one column only
                    cols = [j for j in range(c["D"]) if (i * 7 + j * 3 + len(c["rows"])) % 3 == 0] or [(i + len(c["rows"])) % c["D"]]
                    x[i, cols if (i + len(c["rows"])) % 2 else slice(None)] = np.nan
            if not any(c["mask"]) and c.get("int_dtype"):
                # a single trajectory given as an integer array (np.arange-style data): same mathematics
                x = np.array(c["rows"], dtype={1: np.int64, 2: np.int32}[c["int_dtype"]]).reshape(len(c["rows"]), c["D"])
            try:
                xa, da, inds = _calculate_partials(x)
                out = [0] + [int(i) for i in inds]
                for j in range(c["D"]):
                    out.append(-7777)
                    for v in da[:, j]:
                        r = v * 252
                        if not math.isfinite(r):
                            out.append(-999998)
                            if not viol:
                                viol.append("the derivative at a retained row is %r: samples of a separator row or of another trajectory leaked in" % float(v))
                            continue
                        out.append(int(round(r)) if abs(r - round(r)) < 1e-6 else -999999)
                # ---- oracle: retained rows, x values
                exp_rows, start = [], 0
                brk = [i for i, b in enumerate(c["mask"]) if b] + [len(c["mask"])]
                for e in brk:
                    exp_rows += list(range(start + 3, e - 4))
                    start = e + 1
                if [int(i) for i in inds] != exp_rows:
                    viol.append("retained rows %r, expected original rows minus NaN rows and 3 leading / 4 trailing per segment %r"
                                % (list(map(int, inds)), exp_rows))
                elif xa.shape != da.shape or not np.array_equal(xa, x[exp_rows, :] if exp_rows else xa):
                    viol.append("retained x rows are not the original rows")
                else:
                    # derivative of every cubic segment exact; segments isolated
                    start = 0
                    pos = 0
                    for e in brk:
                        L = e - start
                        n_keep = max(0, L - 7)
                        if n_keep:
                            seg = x[start:e, :]
                            t = np.arange(L, dtype=float)
                            for j in range(c["D"]):
                                co = np.polyfit(t, seg[:, j], 3)
                                if np.max(np.abs(np.polyval(co, t) - seg[:, j])) < 1e-7:      # the column IS a cubic
                                    want = np.polyval(np.polyder(co), t[3:L - 4])
                                    got = da[pos:pos + n_keep, j]
                                    if np.max(np.abs(want - got)) > 1e-6 * (1 + np.max(np.abs(want))):
                                        viol.append("cubic trajectory (segment rows %d..%d, column %d): derivative %r, exact %r"
                                                    % (start, e - 1, j, got.tolist(), want.tolist()))
                        pos += n_keep
                        start = e + 1
                    if len(brk) > 1 and not viol:
                        x2 = x.copy()
                        first_end = brk[0]
                        x2[0:first_end, :] += 1000.0 * (1 + np.arange(first_end)).reshape(-1, 1) ** 2
                        _, da2, _ = _calculate_partials(x2)
                        n0 = max(0, first_end - 7)
                        if not np.array_equal(da2[n0:], da[n0:]):
                            viol.append("changing samples of the first trajectory changed derivatives of another trajectory")
            except IndexError:
                out = [1]
                if all((e - s) >= 7 or (e - s) == 0 for s, e in zip([0] + [b + 1 for b in [i for i, m in enumerate(c["mask"]) if m]],
                                                                     [i for i, m in enumerate(c["mask"]) if m] + [len(c["mask"])])):
                    viol.append("IndexError although every trajectory has at least 7 samples")
        else:
            n, D = len(c["rows"]), c["D"]
            dots = np.array(c["rows"], dtype=float).reshape(n, D)
            df = dots.copy()
            dx = np.ones((n, D))
            td = ImplicitTrainingData(np.zeros((n, D)), dx)
            fit = ImplicitRegression(td)
            ind = Stub(df)
            c0 = fit.eval_count
            v = float(fit(ind))
            if fit.eval_count != c0 + 1:
                viol.append("one fitness call changed the evaluation count by %d" % (fit.eval_count - c0))
            # a long-lived fitness object that is handed new training data (as the fitness-predictor island and the subset
            # evaluation do) must behave like a fresh one
            if (n, D) not in shared:
                shared[(n, D)] = ImplicitRegression(ImplicitTrainingData(np.zeros((n, D)), 3.0 + np.arange(n * D, dtype=float).reshape(n, D)))
            shared[(n, D)].training_data = td
            v3 = float(shared[(n, D)](ind))
            if not (v3 == v or (math.isnan(v3) and math.isnan(v))):
                viol.append("a fitness object whose training_data was re-assigned gives %r, a fresh one on the same data %r" % (v3, v))
            if math.isfinite(v):
                fr = Fraction(v)
                out = [0, fr.numerator, fr.denominator]
                if not (0.0 <= v <= 1.0):
                    viol.append("implicit fitness %r outside [0, 1]" % v)
                for a in (-3.0, 0.5, 7.0, 1e-8, -1e-18, 1e12):
                    v2 = float(ImplicitRegression(td)(Stub(a * df)))
                    if not (abs(v2 - v) <= 1e-12):
                        viol.append("fitness changed from %r to %r when the equation was multiplied by %r" % (v, v2, a))
                if all(sum(r) == 0 and any(r) for r in c["rows"]) and v != 0.0:
                    viol.append("exact invariant has fitness %r, expected 0" % v)
            else:
                out = [1]
        results.append(dict(out=out, viol=viol))
    return dict(results=results)


def check(rep, proof):
    rng = random.Random(rep.seed)
    n = 900 if rep.tier == "quick" else 30000
    cases = []
    for i in range(n):
        r = rng.random()
        cases.append(gen_fitness(rng) if r < 0.35 else gen_partials(rng, malformed=(r > 0.85)))
    rc, res, out, wall = vlib.run_impl("c20", dict(cases=cases), timeout=3000)
    if res is None:
        rep.violation("implementation harness crashed", dict(relation="corr_C20_implicit", log=out[-3000:]), has_input=False)
        return
    results = res["results"]
    oracle_bad = [(i, r["viol"]) for i, r in enumerate(results) if r["viol"]]
    pairs = [(coq_case(c), r["out"]) for c, r in zip(cases, results)]
    bad, log = vlib.coq_compare("c20", HEADER, RUNNER, pairs, shard=150)
    rep.coverage.update(
        evaluations=len(cases),
        distinct_nontrivial=len({repr(c) for c in cases if len(c["rows"]) >= 2}),
        rule="_calculate_partials on 1-4 dimensional integer data with 1-5 NaN-separated trajectories of 8-20 samples (60% exact "
             "cubics) and a malformed stream (short / empty trajectories, double and leading NaN rows); 252*dx_dt rounded is compared "
             "with the exact rationals of Model/Implicit.v whose weights come from the translated Gram functions; "
             "ImplicitRegression.__call__ on rows whose |.|-sum is a power of two (so the float result is an exact dyadic, compared "
             "as a fraction); oracle: exactness on cubics, retained rows, isolation of trajectories, range, scale invariance",
        samples=[cases[0], cases[1]],
        correspondence=dict(cases=len(cases), disagreements=len(bad)),
        oracle_violations=len(oracle_bad),
        distribution=dict(partials=sum(c["kind"] == 0 for c in cases), fitness=sum(c["kind"] == 1 for c in cases),
                          raised=sum(r["out"] == [1] for r in results)),
    )
    rep.assumptions += [
        "exact rationals; float64 carries a few ulp of rounding in the weights and sums (the comparison rounds 252*dx_dt of integer data)",
        "translator tr_sg.py (Gram functions, index regimes, trimming constants) is trusted; its output is what the theorems are about",
        "required_params and the non-default metrics are outside the model",
    ]
    if oracle_bad:
        i, v = oracle_bad[0]
        rep.violation("; ".join(v[:3]), dict(case=cases[i], observed=results[i]["out"], oracle=v))
    elif bad:
        first = bad[0]
        j = None if isinstance(first, tuple) else first
        mo = None if j is None else vlib.coq_eval_one(HEADER, "%s %s" % (RUNNER, pairs[j][0]))
        rep.violation("model and implementation disagree; property oracle found no failing input",
                      dict(relation="corr_C20_implicit (Model/Implicit.v + Gen/SavGol.v vs implicit_regression.py)",
                           case=None if j is None else cases[j], implementation=None if j is None else results[j]["out"],
                           model=mo, disagreements=len(bad), log=log[-1500:]), has_input=False)
    if not proof["ok"] and not rep.violations:
        rep.violation("proof obligation no longer checks: %s" % proof["broken"],
                      dict(theorem=proof["broken"], log=proof["log"][-3000:]), has_input=False)

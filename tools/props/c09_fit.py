"""toy fitness for the C09 monitor: deterministic, NaN for some genomes, many ties"""
import numpy as np
from bingo.evaluation.fitness_function import FitnessFunction


def small_float():
    return float(np.random.randint(0, 6))


class NanProneFitness(FitnessFunction):
    def __init__(self, nan_every=0):
        super().__init__()
        self.nan_every = nan_every

    def __call__(self, individual):
        self.eval_count += 1
        s = sum(individual.values)
        if self.nan_every and int(s) % self.nan_every == 1:
            return float("nan")
        return float(s // 2)

"""C04: generation, mutation and crossover yield well-formed equations, parents intact.
The real operators run with every random source wrapped (np.random.randint/choice, random.randint/randrange as imported by
mutation.py, np.searchsorted inside ProbabilityMassFunction.draw_sample); the recorded tape is replayed through the Coq model
(Model/Variation.v), which must produce the same child stack(s), the same "wrote through the mutable view" flag and consume
EXACTLY the recorded draws.  Oracle on the real objects: child well-formed for the configuration, same size, parents
byte-identical before/after, ages, evaluated flag, child evaluates/prints/simplifies, call returns within the alarm."""
import random

import vlib

HEADER = """From Bingo Require Import Gen.OpDefs Gen.VarConsts Model.Stack Model.AGraphObj Model.Variation.
From Coq Require Import ZArith List Bool.
Import ListNotations.
Open Scope Z_scope.
Definition row (c : cmd) : list Z := [node_of c; p1_of c; p2_of c].
Definition b2z (b : bool) : Z := if b then 1 else 0.
Definition enc1 (r : res (stack * bool)) : list Z :=
  match r with Ok (s, w) rest => [1; b2z w; Z.of_nat (length rest)] ++ flat_map row s | Raise => [(-3)] | BadTape => [(-4)] end.
Definition runner (c : (Z * Z * list Z) * Z * nat * list (Z * Z * Z) * list (Z * Z * Z) * list Z) : list Z :=
  let '(cf, kind, n, pa, pb, tape) := c in
  let '(d, ni, ops) := cf in
  let g := mkCfg d ni ops in
  if kind =? 0 then enc1 (bind (generate g n) (fun s => ret (s, false)) tape)
  else if kind =? 1 then enc1 (mutate g pa tape)
  else match crossover pa pb tape with
       | Ok (a, b) rest => [1; 1; Z.of_nat (length rest)] ++ flat_map row a ++ [(-7777)] ++ flat_map row b
       | Raise => [(-3)] | BadTape => [(-4)] end."""
RUNNER = "runner"

ALL_OPS = [2, 3, 4, 5, 6, 7, 8, 9, 10, 11, 12, 13, 14, 15]
OPSETS = [[], [6], [2], [2, 6], [6, 7, 11], [2, 3, 4, 6, 7], ALL_OPS, [4, 4, 2], [10, 13, 5]]
KINDS = ["command", "node", "parameter", "prune", "fork"]


def gen_cfg(rng):
    D = rng.choice([0, 1, 1, 2, 2, 3])
    cp = rng.choice([None, None, 0.5, 0.0, 1.0, 0.3])
    if D == 0 and cp not in (None, 1.0):
        cp = None                       # variables requested from zero input columns: not a usable configuration
    ops = rng.choice(OPSETS)
    weights = None
    if ops and rng.random() < 0.25:
        weights = [rng.choice([0.0, 1.0, 2.0]) for _ in ops]
        if sum(weights) == 0:
            weights[0] = 1.0
    by_name = [rng.choice([-1, -1, 0, 1, 2]) for _ in ops]
    return dict(D=D, n_init=rng.randint(1, 3), tp=rng.choice([0.1, 0.5, 0.3, 0.0, 1.0]), cp=cp, ops=ops, weights=weights, by_name=by_name)


def gen_chain(rng):
    """one configuration, a small population evolved by a random sequence of variations"""
    cfg = gen_cfg(rng)
    N = rng.choice([1, 2, 3, 4, 5, 6, 8, 10, 12, 16])
    steps = []
    for _ in range(rng.randint(3, 10)):
        k = rng.random()
        if k < 0.15:
            steps.append(["gen"])
        elif k < 0.85:
            steps.append(["mut", rng.choice(KINDS + ["mix"]), rng.randrange(1 << 30)])
        else:
            steps.append(["cross", rng.randrange(1 << 30), rng.randrange(1 << 30)])
    return dict(cfg=cfg, N=N, steps=steps, seed=rng.randrange(1 << 30))


def coq_stack(s):
    return "(@nil (Z * Z * Z))" if not s else vlib.clist(s, lambda r: "(%s, %s, %s)" % (vlib.cz(r[0]), vlib.cz(r[1]), vlib.cz(r[2])))


def coq_case(op):
    cfg = op["cfg"]
    ops = "(@nil Z)" if not cfg["ops"] else vlib.clist(cfg["ops"])
    tape = "(@nil Z)" if not op["tape"] else vlib.clist(op["tape"])
    kind = {"gen": 0, "mut": 1, "cross": 2}[op["kind"]]
    return "((%s, %s, %s), %d, %d%%nat, %s, %s, %s)" % (vlib.cz(cfg["D"]), vlib.cz(cfg["n_init"]), ops, kind, op.get("N", 0),
                                                        coq_stack(op.get("pa", [])), coq_stack(op.get("pb", [])), tape)


def impl_main(payload):
    import signal
    import warnings
    import numpy as np
    import random as pyrandom
    from bingo.symbolic_regression.agraph.agraph import AGraph
    from bingo.symbolic_regression.agraph.component_generator import ComponentGenerator
    from bingo.symbolic_regression.agraph.generator import AGraphGenerator
    from bingo.symbolic_regression.agraph.crossover import AGraphCrossover
    from bingo.symbolic_regression.agraph import mutation as mut_mod
    from bingo.symbolic_regression.agraph.mutation import AGraphMutation
    warnings.simplefilter("ignore")
    np.seterr(all="ignore")

    tape = []
    real = dict(randint=np.random.randint, choice=np.random.choice, searchsorted=np.searchsorted,
                py_randint=mut_mod.randint, py_randrange=mut_mod.randrange)

    def w_randint(*a, **k):
        v = real["randint"](*a, **k)
        tape.append(int(v))
        return v

    def w_choice(a, *rest, **k):
        v = real["choice"](a, *rest, **k)
        tape.append(list(a).index(v))
        return v

    def w_searchsorted(*a, **k):
        v = real["searchsorted"](*a, **k)
        tape.append(int(v))
        return v

    def w_py_randint(a, b):
        v = real["py_randint"](a, b)
        tape.append(int(v))
        return v

    def w_py_randrange(a, b):
        v = real["py_randrange"](a, b)
        tape.append(int(v))
        return v

    np.random.randint, np.random.choice, np.searchsorted = w_randint, w_choice, w_searchsorted
    mut_mod.randint, mut_mod.randrange = w_py_randint, w_py_randrange

    class Hang(Exception):
        pass

    def on_alarm(*_):
        raise Hang()

    signal.signal(signal.SIGALRM, on_alarm)

    def make(cfg):
        cg = ComponentGenerator(input_x_dimension=cfg["D"], num_initial_load_statements=cfg["n_init"],
                                terminal_probability=cfg["tp"], constant_probability=cfg["cp"])
        # operators are enabled by number or by one of their documented names (the harness's own copy of the table)
        names = {2: ["add", "addition", "+"], 3: ["subtract", "subtraction", "-"], 4: ["multiply", "multiplication", "*"],
                 5: ["divide", "division", "/"], 6: ["sine", "sin"], 7: ["cosine", "cos"], 8: ["exponential", "exp", "e"],
                 9: ["logarithm", "log"], 10: ["power", "pow", "^"], 11: ["absolute value", "||", "|"], 12: ["square root", "sqrt"],
                 13: ["safe power", "safe pow"], 14: ["sineh", "sinh"], 15: ["cosineh", "cosh"]}
        for i, o in enumerate(cfg["ops"]):
            how = cfg.get("by_name", [])
            key = names[o][how[i] % len(names[o])] if i < len(how) and how[i] >= 0 and o in names else o
            cg.add_operator(key, None if cfg["weights"] is None else cfg["weights"][i])
        return cg

    def wf_errors(stack, cfg, N):
        errs = []
        if len(stack) != N:
            errs.append("stack has %d rows, configured size %d" % (len(stack), N))
        for i, (n, p1, p2) in enumerate(stack):
            if n == -1:
                # the generator and the variation operators never create INTEGER commands (parents here have none)
                errs.append("row %d is an INTEGER command: not a terminal the generator draws, not an enabled operator" % i)
                continue
            if n == 1:
                continue
            if n == 0:
                if not 0 <= p1 < cfg["D"]:
                    errs.append("row %d loads variable %d, data has %d columns" % (i, p1, cfg["D"]))
            elif n not in cfg["ops"] or (cfg["weights"] is not None and
                                         not any(w > 0 for o, w in zip(cfg["ops"], cfg["weights"]) if o == n)):
                # an operator added with weight 0 is switched off: nothing may introduce it
                errs.append("row %d uses operator %d, enabled %r with weights %r" % (i, n, cfg["ops"], cfg["weights"]))
            elif not (0 <= p1 < i and 0 <= p2 < i):
                errs.append("row %d references rows %d, %d" % (i, p1, p2))
        return errs

    def usable(stack, cfg):
        """evaluate / print / simplify"""
        x = np.linspace(0.5, 1.5, 3 * max(cfg["D"], 1)).reshape(3, -1)[:, :cfg["D"]] if cfg["D"] else np.empty((3, 0))
        for simp in (False, True):
            g = AGraph(use_simplification=simp)
            g.command_array = np.array(stack, dtype=int)
            g.get_complexity()
            str(g)
            g.get_formatted_string("latex")
            out = g.evaluate_equation_at(x)
            if np.asarray(out).shape != (3, 1):
                return "evaluation returned shape %r" % (np.asarray(out).shape,)
        return None

    def state(g):
        return (g._command_array.tobytes(), g._command_array.shape, g._fitness, g._fit_set, g._genetic_age, g._modified,
                tuple(g._simplified_constants), g._simplified_command_array.tobytes())

    ops_out, stats = [], dict(gen=0, mut=0, cross=0, raised=0, unchanged=0, by_kind={}, draws=0, hangs=0)
    for chain in payload["chains"]:
        cfg, N = chain["cfg"], chain["N"]
        np.random.seed(chain["seed"] % (2 ** 31))
        pyrandom.seed(chain["seed"])
        try:
            cg = make(cfg)
        except Exception:  # noqa  configuration rejected by bingo's own validation
            continue
        gen = AGraphGenerator(N, cg)
        cross = AGraphCrossover()
        muts = {}
        for k in KINDS + ["mix"]:
            pr = {kk: (0.2 if k == "mix" else float(kk == k)) for kk in KINDS}
            muts[k] = AGraphMutation(cg, command_probability=pr["command"], node_probability=pr["node"],
                                     parameter_probability=pr["parameter"], prune_probability=pr["prune"],
                                     fork_probability=pr["fork"])
        pop = []

        def run(kind, fn, parents, rec):
            del tape[:]
            before = [state(p) for p in parents]
            viol = []
            res = None
            signal.alarm(5)
            try:
                res = fn()
                signal.alarm(0)
            except Hang:
                stats["hangs"] += 1
                viol.append("%s did not return within 5 s" % kind)
                rec.update(out=[-5])
            except Exception as e:  # noqa
                signal.alarm(0)
                stats["raised"] += 1
                rec.update(out=[-3], exc=repr(e)[:200])
            signal.alarm(0)
            for p, b in zip(parents, before):
                if state(p) != b:
                    viol.append("%s modified its parent: stack %r -> %r, fitness/fit_set/age %r -> %r"
                                % (kind, np.frombuffer(b[0], dtype=int).reshape(-1, 3).tolist(), p._command_array.tolist(),
                                   b[2:5], (p._fitness, p._fit_set, p._genetic_age)))
            rec.update(tape=list(tape), viol=viol)
            stats["draws"] += len(tape)
            return res

        for step in chain["steps"]:
            rec = dict(cfg=cfg, N=N)
            if step[0] == "gen" or not pop:
                rec["kind"] = "gen"
                g = run("generator", gen, [], rec)
                stats["gen"] += 1
                if g is not None:
                    st = g._command_array.tolist()
                    rec["out"] = [1, 0, 0] + [a for r in st for a in r]
                    rec["viol"] += wf_errors(st, cfg, N)
                    if not rec["viol"]:
                        try:
                            u = usable(st, cfg)
                            if u:
                                rec["viol"].append(u)
                        except Exception as e:  # noqa
                            rec["viol"].append("generated equation %r cannot be evaluated/printed/simplified: %r" % (st, e))
                    g.fitness = 1.0
                    g.genetic_age = len(pop) + 1
                    pop.append(g)
            elif step[0] == "mut":
                rec["kind"] = "mut"
                rs = random.Random(step[2])
                parent = pop[rs.randrange(len(pop))]
                if not parent.fit_set:
                    parent.fitness = 2.0
                rec["pa"] = parent._command_array.tolist()
                rec["mkind"] = step[1]
                child = run("%s mutation" % step[1], lambda: muts[step[1]](parent), [parent], rec)
                stats["mut"] += 1
                if child is not None:
                    st = child._command_array.tolist()
                    wrote = not child.fit_set
                    lt = muts[step[1]].last_mutation_type
                    stats["by_kind"][lt] = stats["by_kind"].get(lt, 0) + 1
                    stats["unchanged"] += int(st == rec["pa"])
                    rec["out"] = [1, int(wrote), 0] + [a for r in st for a in r]
                    rec["viol"] += wf_errors(st, cfg, N)
                    if child.genetic_age != parent.genetic_age:
                        rec["viol"].append("mutant has age %r, parent %r" % (child.genetic_age, parent.genetic_age))
                    if st != rec["pa"] and child.fit_set:
                        rec["viol"].append("mutant %r differs from its parent %r but is marked as evaluated" % (st, rec["pa"]))
                    if child is parent or np.shares_memory(child._command_array, parent._command_array):
                        rec["viol"].append("mutant shares its stack with the parent")
                    if not rec["viol"]:
                        try:
                            u = usable(st, cfg)
                            if u:
                                rec["viol"].append(u)
                        except Exception as e:  # noqa
                            rec["viol"].append("mutant %r of %r cannot be evaluated/printed/simplified: %r" % (st, rec["pa"], e))
                    child.fitness = 3.0
                    if len(pop) < 8:
                        pop.append(child)
                    else:
                        pop[rs.randrange(len(pop))] = child
            else:
                rec["kind"] = "cross"
                rs = random.Random(step[1])
                p1, p2 = pop[rs.randrange(len(pop))], pop[rs.randrange(len(pop))]
                for p in (p1, p2):
                    if not p.fit_set:
                        p.fitness = 2.0
                p1.genetic_age, p2.genetic_age = rs.randint(0, 9), rs.randint(0, 9)
                ages = (p1.genetic_age, p2.genetic_age)
                rec["pa"], rec["pb"] = p1._command_array.tolist(), p2._command_array.tolist()
                res = run("crossover", lambda: cross(p1, p2), [p1, p2], rec)
                stats["cross"] += 1
                if res is not None:
                    c1, c2 = res
                    s1, s2 = c1._command_array.tolist(), c2._command_array.tolist()
                    rec["out"] = [1, 1, 0] + [a for r in s1 for a in r] + [-7777] + [a for r in s2 for a in r]
                    for nm, ch, st, par in (("first", c1, s1, rec["pa"]), ("second", c2, s2, rec["pb"])):
                        rec["viol"] += wf_errors(st, cfg, N)
                        if ch.genetic_age != max(ages):
                            rec["viol"].append("%s crossover child has age %r, parents %r" % (nm, ch.genetic_age, ages))
                        if st != par and ch.fit_set:
                            rec["viol"].append("%s crossover child %r differs from its parent %r but is marked as evaluated" % (nm, st, par))
                        if not rec["viol"]:
                            try:
                                u = usable(st, cfg)
                                if u:
                                    rec["viol"].append(u)
                            except Exception as e:  # noqa
                                rec["viol"].append("crossover child %r cannot be evaluated/printed/simplified: %r" % (st, e))
                    c1.fitness, c2.fitness = 4.0, 4.0
                    pop[rs.randrange(len(pop))] = c1
                    if len(pop) < 8:
                        pop.append(c2)
            ops_out.append(rec)
    np.random.randint, np.random.choice, np.searchsorted = real["randint"], real["choice"], real["searchsorted"]
    mut_mod.randint, mut_mod.randrange = real["py_randint"], real["py_randrange"]
    return dict(ops=ops_out, stats=stats)


def check(rep, proof):
    rng = random.Random(rep.seed)
    n = 500 if rep.tier == "quick" else 12000
    chains = [gen_chain(rng) for _ in range(n)]
    # degenerate generators (F10, fixed): a single drawable terminal kind / a single operator with weight
    for D, cp, ops, w in [(2, 0.0, [2], None), (1, 1.0, [2], None), (0, None, [6], None), (2, None, [2, 6], [1.0, 0.0]), (1, 0.0, [6], None)]:
        for mk in ("node", "command", "mix"):
            chains.append(dict(cfg=dict(D=D, n_init=2, tp=0.3, cp=cp, ops=ops, weights=w), N=5,
                               steps=[["gen"]] + [["mut", mk, 7 * i + 1] for i in range(6)], seed=11))
    rc, res, out, wall = vlib.run_impl("c04", dict(chains=chains, seed=rep.seed), timeout=3400)
    if res is None:
        rep.violation("implementation harness crashed", dict(relation="corr_C04_variation", log=out[-3000:]), has_input=False)
        return
    ops, stats = res["ops"], res["stats"]
    oracle_bad = [(i, o["viol"]) for i, o in enumerate(ops) if o["viol"]]
    pairs = [(coq_case(o), o["out"]) for o in ops]
    bad, log = vlib.coq_compare("c04", HEADER, RUNNER, pairs, shard=300)
    rep.coverage.update(
        evaluations=len(ops),
        distinct_nontrivial=len({repr((o.get("pa"), o["tape"])) for o in ops}),
        rule="chains of generator / mutation (each of the five kinds forced, and the default mix) / crossover calls on real AGraph "
             "objects over random configurations (0-3 input columns, 9 operator sets incl. none, unary-only, binary-only, duplicates, "
             "zero weights; terminal/constant probabilities incl. 0 and 1; 1-3 forced load rows; stack sizes 1-16), parents drawn "
             "from the evolving population; every random draw recorded and replayed through the Coq model, which must yield the same "
             "children, the same write flag and use exactly the recorded draws; oracle on the real objects (well-formedness, size, "
             "parents unchanged, ages, evaluated flag, evaluate/print/simplify, 5 s alarm)",
        samples=[dict(cfg=ops[0]["cfg"], kind=ops[0]["kind"], tape=ops[0]["tape"][:12])],
        correspondence=dict(cases=len(ops), disagreements=len(bad)),
        implementation_stats=stats, oracle_violations=len(oracle_bad),
    )
    rep.assumptions += [
        "the random sources are oracles (any value in range); zero-weight items are never drawn by the real PMF, the theorems allow them",
        "float rounding in the PMF's cumulative weights (an index one past the end) is not modelled",
        "calls that raise (empty operator set, crossover of stacks shorter than 3 rows, variables requested with 0 input columns) produce "
        "no equation; the theorems are about the calls that return",
        "tr_variation.py (attempt bounds, dispatch order, PMF item lists, crossover cut range) is trusted",
    ]
    if bad and not oracle_bad:
        # an operation that RAISED where the model (the behaviour the theorems were proved about) yields an equation is a concrete
        # failing input: the configuration is valid and no equation came back
        for b in [b for b in bad if not isinstance(b, tuple) and ops[b].get("exc")][:4]:
            mo = vlib.coq_eval_one(HEADER, "%s %s" % (RUNNER, pairs[b][0]))
            if mo and mo[0] == 1:
                oracle_bad.append((b, ["%s%s on a valid configuration (stack size %d) raised %s; no equation was produced"
                                       % (ops[b]["kind"], " (%s)" % ops[b]["mkind"] if ops[b].get("mkind") else "", ops[b]["N"], ops[b]["exc"])]))
                break
    if bad and not oracle_bad:
        # the correspondence is broken: look harder for a concrete malformed child - long variation sequences (damage done to an
        # unused row shows once later variations bring it into use) biased towards the kinds of operation that disagree
        focus = sorted({ops[b].get("mkind") or ops[b]["kind"] for b in bad if not isinstance(b, tuple)})
        rng2 = random.Random(rep.seed + 1)
        chains2 = []
        for _ in range(1500):
            ch = gen_chain(rng2)
            ch["N"] = rng2.choice([6, 8, 10, 12, 16])
            ch["steps"] = [["gen"]]
            for _ in range(rng2.randint(15, 40)):
                k = rng2.random()
                mk = [f for f in focus if f in KINDS]
                if k < 0.5 and mk:
                    ch["steps"].append(["mut", rng2.choice(mk), rng2.randrange(1 << 30)])
                elif k < 0.9:
                    ch["steps"].append(["mut", rng2.choice(KINDS + ["mix"]), rng2.randrange(1 << 30)])
                else:
                    ch["steps"].append(["cross", rng2.randrange(1 << 30), rng2.randrange(1 << 30)])
            chains2.append(ch)
        rc2, res2, out2, _ = vlib.run_impl("c04", dict(chains=chains2, seed=rep.seed + 1), timeout=3000)
        if res2 is not None:
            ob2 = [(i, o["viol"]) for i, o in enumerate(res2["ops"]) if o["viol"]]
            if ob2:
                ops, oracle_bad = res2["ops"], ob2
                rep.coverage["widened_search"] = dict(chains=len(chains2), focus=focus, operations=len(res2["ops"]), oracle_violations=len(ob2))
    if oracle_bad:
        i, v = oracle_bad[0]
        o = ops[i]
        rep.violation(v[0][:600], dict(configuration=o["cfg"], size=o["N"], operation=o["kind"], mutation=o.get("mkind"),
                                       parent=o.get("pa"), parent_2=o.get("pb"), draws=o["tape"], oracle=v[:5]))
    elif bad:
        first = bad[0]
        j = None if isinstance(first, tuple) else first
        mo = None if j is None else vlib.coq_eval_one(HEADER, "%s %s" % (RUNNER, pairs[j][0]))
        rep.violation("model and implementation disagree; property oracle found no failing input",
                      dict(relation="corr_C04_variation (Model/Variation.v vs generator/mutation/crossover)",
                           case=None if j is None else {k: ops[j].get(k) for k in ("cfg", "N", "kind", "mkind", "pa", "pb", "tape", "exc")},
                           implementation=None if j is None else ops[j]["out"][:120], model=None if mo is None else mo[:120],
                           disagreements=len(bad), log=log[-1500:]), has_input=False)
    if not proof["ok"] and not rep.violations:
        rep.violation("proof obligation no longer checks: %s" % proof["broken"],
                      dict(theorem=proof["broken"], log=proof["log"][-3000:]), has_input=False)

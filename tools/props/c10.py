"""C10: hall of fame / Pareto front.  Correspondence Model/Hof.v <-> bingo/stats/*.py on operation
histories, plus a model-independent property oracle run on the implementation."""
import math
import random

import vlib

INF = 10 ** 6
HEADER = "From Bingo Require Import Lib.ListExtra Model.Hof."


# ------------------------------------------------------------------ generation
def gen_key(rng, nan_p=0.15):
    r = rng.random()
    if r < nan_p:
        return None
    if r < nan_p + 0.05:
        return INF
    if r < nan_p + 0.10:
        return -INF
    return rng.randint(-3, 6)


def gen_case(rng, tier):
    pareto = rng.random() < 0.4
    cap = None if pareto else rng.choice([0, 1, 1, 2, 3, 4, 5, 6])
    sim = rng.choice([0, 0, 0, 2, 3])
    only_updates = rng.random() < 0.6
    nops = rng.randint(0, 12 if tier == "quick" else 25)
    nobj = rng.randint(1, 12)
    ops, length = [], 0
    for _ in range(nops):
        r = rng.random()
        if only_updates or r < 0.55:
            pop = [[rng.randrange(nobj), gen_key(rng), gen_key(rng, 0.05 if pareto else 0.3)]
                   for _ in range(rng.randint(0, 7))]
            ops.append(["U", pop])
        elif r < 0.75:
            ops.append(["I", [rng.randrange(nobj), gen_key(rng, 0.15), gen_key(rng, 0.1)]])   # NaN primary keys included
        elif r < 0.93:
            ops.append(["R", rng.randint(-8, 8) if rng.random() < 0.15 else rng.randint(-3, 2)])
        else:
            ops.append(["C"])
    # the keys are small integers times a scale: orders and ties are the same at every magnitude (near-ties of magnitude
    # 1e-10 are no ties)
    return dict(pareto=pareto, cap=cap, sim=sim, ops=ops, nobj=nobj, scale=rng.choice([1.0, 1.0, 1.0, 1e-10, 1e-10, 1e9]))


def exhaustive_cases():
    """all update-only histories of <= 5 single offers over keys {0,1,1',nan}, cap <= 3 (hall) and
    all histories of <= 4 offers over a 3x3 grid (+nan) for the Pareto front"""
    import itertools
    out = []
    for cap in (1, 2, 3):
        for n in range(0, 6):
            for ks in itertools.product([0, 1, 2, None], repeat=n):
                out.append(dict(pareto=False, cap=cap, sim=0, nobj=n + 1,
                                ops=[["U", [[j, k, 0]]] for j, k in enumerate(ks)]))
    grid = [(a, b) for a in (0, 1, 2) for b in (0, 1, 2)] + [(None, 0)]
    for n in range(0, 4):
        for ps in itertools.product(grid, repeat=n):
            out.append(dict(pareto=True, cap=None, sim=0, nobj=n + 1,
                            ops=[["U", [[j, p[0], p[1]] for j, p in enumerate(ps)]]]))
    return out


# ------------------------------------------------------------------ model side
def coq_case(c):
    def ind(i):
        return "(mkI %d%%nat %s %s)" % (i[0], vlib.copt(i[1]), vlib.copt(i[2]))

    def op(o):
        if o[0] == "U":
            return "(OUpdate %s)" % vlib.clist(o[1], ind)
        if o[0] == "I":
            return "(OInsert %s)" % ind(o[1])
        if o[0] == "R":
            return "(ORemove %s)" % vlib.cz(o[1])
        return "OClear"
    return "(%s, %s, %s, %s)" % (vlib.cbool(c["pareto"]),
                                 "None" if c["cap"] is None else "(Some %d%%nat)" % c["cap"],
                                 vlib.cz(c["sim"]), vlib.clist(c["ops"], op))


RUNNER = ("(fun c : bool * option nat * Z * list op => let '(p, cap, m, ops) := c in "
          "enc_hof (run (if (m =? 0)%Z then None else Some (fun a b : nat => (Z.of_nat a mod m =? Z.of_nat b mod m)%Z)) "
          "p cap 1000%nat ops))")


# ------------------------------------------------------------------ implementation side
def impl_main(payload):
    import copy
    import numpy as np
    from bingo.stats.hall_of_fame import HallOfFame
    from bingo.stats.pareto_front import ParetoFront

    class Ind:
        def __init__(self, tag):
            self.tag, self.fitness, self.k2, self.stamp = tag, None, None, -1

    sc = [1.0]

    def fl(k):
        return float("nan") if k is None else (float("inf") if k == INF else (float("-inf") if k == -INF else float(k) * sc[0]))

    def enc(k):
        if k is None or (isinstance(k, float) and math.isnan(k)):
            return [0]
        if k == float("inf"):
            return [1, INF]
        if k == float("-inf"):
            return [1, -INF]
        return [1, int(round(k / sc[0]))]

    def dominates(a, b):
        return a[0] <= b[0] and a[1] <= b[1] and (a[0] != b[0] or a[1] != b[1])

    results = []
    for c in payload["cases"]:
        m = c["sim"]
        sc[0] = c.get("scale", 1.0)
        simf = (lambda a, b: a.tag % m == b.tag % m) if m else None
        if c["pareto"]:
            h = ParetoFront(secondary_key=lambda x: x.k2, similarity_function=simf)
        else:
            h = HallOfFame(c["cap"], similarity_function=simf)
        objs = [Ind(t) for t in range(c["nobj"])]
        stamp, err, viol = 0, 0, []
        offered_objs, offers, upd_only = [], [], True
        for o in c["ops"]:
            try:
                if o[0] == "U":
                    pop = []
                    for ob_ in objs:
                        ob_.listed_twice = False
                    for (t, k1, k2) in o[1]:
                        # a fresh object per offer unless the tag was offered before in this same call
                        ob = objs[t]
                        if any(ob is q for q in pop):
                            same_keys = (enc(ob.fitness), enc(ob.k2)) == (enc(fl(k1)), enc(fl(k2)))
                            if same_keys:
                                # the very same object listed twice in one population ([a, b, a]): two independent copies
                                ob.listed_twice = True         # (one object carries one stamp: no arrival order between its copies)
                                pop.append(ob)
                                offers.append((t, ob.fitness, ob.k2, ob.stamp))
                                continue
                            ob = Ind(t)
                        ob.fitness, ob.k2, ob.stamp = fl(k1), fl(k2), stamp
                        stamp += 1
                        pop.append(ob)
                        offers.append((t, ob.fitness, ob.k2, ob.stamp))
                    offered_objs += pop
                    h.update(pop)
                    for ob in pop:          # mutate the originals afterwards: copies must not follow
                        ob.fitness, ob.k2 = -777.0, -777.0
                elif o[0] == "I":
                    upd_only = False
                    t, k1, k2 = o[1]
                    ob = objs[t]
                    ob.fitness, ob.k2, ob.stamp = fl(k1), fl(k2), stamp
                    stamp += 1
                    offered_objs.append(ob)
                    h.insert(ob)
                    ob.fitness, ob.k2 = -777.0, -777.0
                elif o[0] == "R":
                    upd_only = False
                    h.remove(o[1])
                else:
                    upd_only = False
                    h.clear()
            except IndexError:
                err = 1
                break
        keys, items = list(h._keys), list(h._items)
        out = [err, len(keys), len(items)]
        for k in keys:
            out += enc(k)
        for it in items:
            out += [it.tag] + enc(it.fitness) + enc(it.k2)
        # ---- property oracle (independent of the Coq model)
        if not err:
            ks = [k for k in keys]
            if any(math.isnan(k) for k in ks):
                viol.append("NaN key held")
            elif any(ks[i] > ks[i + 1] for i in range(len(ks) - 1)):
                viol.append("keys not ascending")
            if len(keys) != len(items) or any(not (it.fitness == k) for it, k in zip(items, keys)):
                viol.append("keys and items out of step (or a copy followed its original)")
            if any(any(it is ob for ob in offered_objs) for it in items):
                viol.append("resident is the offered object itself, not a copy")
            if len({id(it) for it in items}) != len(items):
                viol.append("two slots hold the same object: residents are not independent copies of each other")
            for i in range(len(items) - 1):
                if getattr(items[i], "listed_twice", False) or getattr(items[i + 1], "listed_twice", False):
                    continue
                if keys[i] == keys[i + 1] and items[i].stamp > items[i + 1].stamp:
                    viol.append("equal keys not in arrival order")
                    break
            if upd_only and not c["pareto"] and not m:
                want = sorted(k for (_, k, _, _) in offers if not math.isnan(k))[:c["cap"]]
                if ks != want:
                    viol.append("hall does not hold the smallest keys offered: %r vs %r" % (ks, want))
            if upd_only and c["pareto"]:
                valid = [o for o in offers if not (math.isnan(o[1]) or math.isnan(o[2]))]
                front = sorted((it.stamp for it in items))
                if not m:
                    want = sorted(o[3] for o in valid if not any(dominates(q[1:3], o[1:3]) for q in valid))
                    if front != want:
                        viol.append("front is not the non-dominated set of offers")
                else:
                    for a in items:
                        for b in items:
                            if a.stamp < b.stamp and simf(a, b):
                                viol.append("two similar members in the front")
        results.append(dict(out=out, viol=viol))
    # ---- replay of known findings
    fres = {}
    for f in payload.get("findings", []):
        r = f["replay"]
        if r["kind"] == "insert_nan":
            h = HallOfFame(3)
            for k in r["keys"]:
                ob = Ind(0)
                ob.fitness = fl(k)
                h.insert(ob)
            fres[f["id"]] = any(math.isnan(k) for k in h._keys)
        elif r["kind"] == "capacity_zero":
            h = HallOfFame(0)
            ob = Ind(0)
            ob.fitness = 1.0
            try:
                h.update([ob])
                fres[f["id"]] = False
            except IndexError:
                fres[f["id"]] = True
    return dict(results=results, findings=fres)


# ------------------------------------------------------------------ the check
def nontrivial(c):
    return sum(len(o[1]) if o[0] == "U" else 1 for o in c["ops"]) >= 3


def check(rep, proof):
    rng = random.Random(rep.seed)
    n = 1500 if rep.tier == "quick" else 30000
    cases = [gen_case(rng, rep.tier) for _ in range(n)]
    exh = exhaustive_cases() if rep.tier == "thorough" else []
    cases = exh + cases
    findings = vlib.load_findings("C10")
    rc, res, out, wall = vlib.run_impl("c10", dict(cases=cases, findings=findings))
    if res is None:
        rep.violation("implementation harness crashed (bingo.stats no longer importable/runnable?)",
                      dict(relation="corr_C10_hof", log=out[-3000:]), has_input=False)
        return
    results = res["results"]
    # known findings
    for f in findings:
        if res["findings"].get(f["id"]):
            rep.known.append("%s %s" % (f["id"], f["what"]))
    # oracle violations found directly on the implementation
    oracle_bad = [(i, r["viol"]) for i, r in enumerate(results) if r["viol"]]
    # correspondence, evaluated inside Coq
    bad, log = vlib.coq_compare("c10", HEADER, RUNNER, [(coq_case(c), r["out"]) for c, r in zip(cases, results)])
    rep.coverage.update(
        evaluations=len(cases),
        distinct_nontrivial=len({repr(c) for c in cases if nontrivial(c)}),
        rule="random operation histories (update/insert/remove/clear) over 1-12 objects, keys in -3..6 with ties, "
             "+-inf and NaN, capacities 1-6, Pareto fronts, similarity filters mod 2/3; thorough adds all update-only "
             "histories of <=5 offers over 4 key values x cap<=3 and all Pareto histories of <=3 offers on a 3x3 grid; "
             "non-trivial = at least 3 offered individuals/operations; distinct by full case text",
        exhaustive=False,
        samples=[cases[len(exh)], cases[len(exh) + 1]] if len(cases) > len(exh) + 1 else cases[:2],
        correspondence=dict(cases=len(cases), disagreements=len(bad), exhaustive_small_scope=len(exh)),
        oracle_violations=len(oracle_bad),
        distribution=dict(pareto=sum(c["pareto"] for c in cases), with_sim=sum(1 for c in cases if c["sim"]),
                          errors=sum(r["out"][0] for r in results),
                          ops=dict((k, sum(sum(1 for o in c["ops"] if o[0] == k) for c in cases)) for k in "UIRC")),
    )
    rep.assumptions += [
        "non-NaN float keys are modelled by an order embedding into Z (test keys are small integers and +-inf)",
        "deepcopy is modelled as allocation of a fresh object id carrying the keys read at copy time",
        "manual inserts with NaN keys and capacity 0 are part of the histories (findings F12a/F12b, fixed)",
    ]
    if oracle_bad:
        i, v = oracle_bad[0]
        rep.violation("; ".join(v), dict(case=cases[i], observed=results[i]["out"], oracle=v,
                                         how="tools/props/c10.py impl_main on this case"))
    elif bad:
        first = bad[0]
        if isinstance(first, tuple):
            rep.violation("correspondence shard failed to evaluate", dict(relation="corr_C10_hof", log=log[-2000:]),
                          has_input=False)
        else:
            mo = vlib.coq_eval_one(HEADER, "%s %s" % (RUNNER, coq_case(cases[first])))
            rep.violation("model and implementation disagree, property oracle found no failing input",
                          dict(relation="corr_C10_hof (Model/Hof.v run vs bingo.stats)", case=cases[first],
                               implementation=results[first]["out"], model=mo, disagreements=len(bad)),
                          has_input=False)
    if not proof["ok"] and not rep.violations:
        rep.violation("proof obligation no longer checks: %s" % proof["broken"],
                      dict(theorem=proof["broken"], log=proof["log"][-3000:]), has_input=False)

"""C15: best individual reported is a true minimum and carries its true fitness."""
import ast
import math
import os
import random

import vlib

HEADER = "From Bingo Require Import Model.Best."
RUNNER = ("(fun c : Z * list (list key) => let '(k, ls) := c in "
          "if (k =? 0)%Z then enc_on (scan_best (hd [] ls)) else enc_onn (arch_best ls))")

PAR_BEST_EXPECT = "min(all_best_indvs, key=lambda x: x.fitness)"


def gen_fit(rng):
    r = rng.random()
    if r < 0.3:
        return None
    if r < 0.36:
        return "inf"
    if r < 0.42:
        return "-inf"
    return rng.randint(0, 4)


def gen_case(rng):
    kind = rng.choice([0, 0, 1, 1, 1])
    if kind == 0:
        n = rng.randint(0, 12) if rng.random() < 0.9 else rng.randint(13, 40)
        pops = [[gen_fit(rng) for _ in range(n)]]
    else:
        k = rng.randint(1, 8)
        allnan = rng.random() < 0.2
        pops = []
        for _ in range(k):
            if rng.random() < 0.3:
                pops.append([None] * rng.randint(1, 4))
            else:
                pops.append([None if allnan else gen_fit(rng) for _ in range(rng.randint(1, 6))])
    return dict(kind=kind, pops=pops, age0=rng.random() < 0.3)


def exhaustive_cases():
    import itertools
    vals = [None, "-inf", 1, 1, 2, "inf"]
    out = []
    for n in range(0, 6):
        for t in itertools.product(range(len(vals)), repeat=n):
            if n == 5 and t[0] > 2:
                continue
            out.append(dict(kind=0, pops=[[vals[i] for i in t]], age0=False))
    for shape in [(1, 1), (2, 1), (1, 2), (2, 2), (1, 1, 1), (2, 1, 1)]:
        tot = sum(shape)
        for t in itertools.product([None, 1, 2], repeat=tot):
            pops, j = [], 0
            for s in shape:
                pops.append(list(t[j:j + s]))
                j += s
            out.append(dict(kind=1, pops=pops, age0=False))
    return out


def zval(v):
    return None if v is None else (10 ** 6 if v == "inf" else (-10 ** 6 if v == "-inf" else v))


def coq_case(c):
    return "(%d, %s)" % (c["kind"], vlib.clist(c["pops"], lambda p: vlib.clist(p, lambda v: vlib.copt(zval(v)))))


# ------------------------------------------------------------------ implementation side
def impl_main(payload):
    import numpy as np
    from bingo.chromosomes.multiple_values import MultipleValueChromosome
    from bingo.evolutionary_optimizers.island import Island
    from bingo.evolutionary_optimizers.serial_archipelago import SerialArchipelago

    def fl(v):
        return float("nan") if v is None else float(v)

    class StubEval:
        eval_count = 0

        def __call__(self, population):
            for ind in population:
                if not ind.fit_set:
                    ind.fitness = ind._target

    class StubEA:
        def __init__(self):
            self.evaluation = StubEval()
            self.diagnostics = None

        def generational_step(self, population):
            return population

    def mk_pop(fs, age0):
        pop = []
        for v in fs:
            ind = MultipleValueChromosome([0])
            ind._target = fl(v)
            if not age0:
                ind.fitness = fl(v)
            pop.append(ind)
        return pop

    def gen():
        return MultipleValueChromosome([0])

    def is_min(f, allf):
        nn = [x for x in allf if not math.isnan(x)]
        if math.isnan(f):
            return not nn
        return all(not (x < f) for x in nn)

    results = []
    for c in payload["cases"]:
        viol = []
        try:
            if c["kind"] == 0:
                isl = Island(StubEA(), gen, 0)
                isl.population = mk_pop(c["pops"][0], c["age0"])
                isl.generational_age = 0 if c["age0"] else 3
                try:
                    best = isl.get_best_individual()
                    idx = [i for i, p in enumerate(isl.population) if p is best]
                    out = [idx[0]] if idx else [-2]
                    if not idx:
                        viol.append("island best is not a member of the population")
                    elif not is_min(best.fitness, [p.fitness for p in isl.population]):
                        viol.append("island best is not a minimum / NaN although a number exists")
                    bf = isl.get_best_fitness()
                    if not (bf == best.fitness or (math.isnan(bf) and math.isnan(best.fitness))):
                        viol.append("get_best_fitness differs from the best individual's fitness")
                    # the population changes while the island's age does not (the best emigrates, evaluated newcomers arrive):
                    # the next query answers for the population as it is NOW
                    if idx and len(isl.population) > 1:
                        newcomers = mk_pop([fl(v) for v in c["pops"][0][:2]], False)
                        isl.population = [p for p in isl.population if p is not best] + (newcomers if len(c["pops"][0]) % 2 else [])
                        b2 = isl.get_best_individual()
                        if not any(p is b2 for p in isl.population):
                            viol.append("after the best individual left the population, the island still reports it (not a member)")
                        elif not is_min(b2.fitness, [p.fitness for p in isl.population]):
                            viol.append("after a population change at the same age the reported best is not a minimum")
                        bf2 = isl.get_best_fitness()
                        if not (bf2 == b2.fitness or (math.isnan(bf2) and math.isnan(b2.fitness))):
                            viol.append("get_best_fitness differs from the best individual's fitness after a population change")
                except IndexError:
                    out = [-1]
            else:
                arch = SerialArchipelago(Island(StubEA(), gen, 0), num_islands=len(c["pops"]))
                for isl, fs in zip(arch.islands, c["pops"]):
                    isl.population = mk_pop(fs, c["age0"])
                    isl.generational_age = 0 if c["age0"] else 2
                best = arch.get_best_individual()
                loc = [(k, b) for k, isl in enumerate(arch.islands) for b, p in enumerate(isl.population) if p is best]
                out = list(loc[0]) if loc else [-2]
                allf = [p.fitness for isl in arch.islands for p in isl.population]
                if not loc:
                    viol.append("archipelago best is not a member")
                elif not is_min(best.fitness, allf):
                    viol.append("archipelago best is not a minimum over all islands (or NaN although a number exists)")
                bf = arch.get_best_fitness()
                if not (bf == best.fitness or (math.isnan(bf) and math.isnan(best.fitness))):
                    viol.append("archipelago get_best_fitness differs from best individual's fitness")
                if loc and len(arch.islands[loc[0][0]].population) > 1:
                    home = arch.islands[loc[0][0]]
                    home.population = [p for p in home.population if p is not best]
                    b2 = arch.get_best_individual()
                    allf2 = [p.fitness for isl in arch.islands for p in isl.population]
                    if not any(p is b2 for isl in arch.islands for p in isl.population):
                        viol.append("after the best individual left its island, the archipelago still reports it (not a member)")
                    elif not is_min(b2.fitness, allf2):
                        viol.append("after a population change at the same age the archipelago's best is not a minimum")
        except Exception as e:  # noqa
            out = [-3]
            viol.append("unexpected exception %r" % (e,))
        results.append(dict(out=out, viol=viol))

    pred = predictor_runs(payload.get("pred_runs", 0), payload.get("seed", 0))
    return dict(results=results, pred=pred)


def predictor_runs(nruns, seed):
    """real FitnessPredictorIsland evolutions; at every generation the fitness attached to the reported best and to
    every hall-of-fame entry must be bit-identical to an independent full-data evaluation"""
    import copy
    import numpy as np
    from bingo.evaluation.evaluation import Evaluation
    from bingo.evolutionary_algorithms.age_fitness import AgeFitnessEA
    from bingo.evolutionary_algorithms.mu_plus_lambda import MuPlusLambda
    from bingo.evolutionary_optimizers.fitness_predictor_island import FitnessPredictorIsland
    from bingo.local_optimizers.local_opt_fitness import LocalOptFitnessFunction
    from bingo.local_optimizers.scipy_optimizer import ScipyOptimizer
    from bingo.selection.tournament import Tournament
    from bingo.stats.hall_of_fame import HallOfFame
    from bingo.symbolic_regression import AGraphCrossover, AGraphMutation, ComponentGenerator, AGraphGenerator, \
        ExplicitRegression, ExplicitTrainingData
    from bingo.chromosomes.multiple_values import SinglePointCrossover, SinglePointMutation, \
        MultipleValueChromosomeGenerator
    from bingo.evaluation.fitness_function import FitnessFunction

    class DistanceToAverage(FitnessFunction):
        def __call__(self, individual):
            self.eval_count += 1
            return float(np.linalg.norm(individual.values - np.mean(self.training_data)))

    out = dict(runs=0, generations=0, comparisons=0, viol=[], samples=[])
    rng = random.Random(seed)
    for r in range(nruns):
        s = rng.randrange(10 ** 6)
        np.random.seed(s)
        random.seed(s)
        wrapped = (r % 2 == 0)
        puf, tuf = rng.randint(1, 5), rng.randint(1, 5)
        # data sizes down to the hard-coded minimum predictor size (10) and below; predictor covering "all" the data by count
        npts = rng.choice([60, 60, 25, 10, 8, 5])
        ratio = rng.choice([0.2, 0.2, 0.5, 1.0])
        if wrapped:
            x = np.linspace(-2, 2, npts).reshape(-1, 1)
            y = x ** 2 + 3.5 * x
            td = ExplicitTrainingData(x, y)
            cg = ComponentGenerator(1)
            for o in ("+", "-", "*"):
                cg.add_operator(o)
            fit = ExplicitRegression(training_data=td)
            lo = LocalOptFitnessFunction(fit, ScipyOptimizer(fit, method="lm"))
            ea = AgeFitnessEA(Evaluation(lo), AGraphGenerator(10, cg), AGraphCrossover(), AGraphMutation(cg), 0.4, 0.4, 12)
            gen = AGraphGenerator(10, cg)
            full = lambda ind: ExplicitRegression(training_data=ExplicitTrainingData(x, y))(ind)  # noqa
            popsize = 12
        else:
            data = np.linspace(0.1, 1, npts + 20 if npts > 10 else npts)
            ea = MuPlusLambda(Evaluation(DistanceToAverage(data)), Tournament(2), SinglePointCrossover(),
                              SinglePointMutation(np.random.random), 0.2, 0.8, 16)
            gen = MultipleValueChromosomeGenerator(np.random.random, 6)
            full = lambda ind: DistanceToAverage(data)(ind)  # noqa
            popsize = 16
        hof = HallOfFame(4)
        via_setter = (r % 3 == 2)        # the hall of fame may also be attached after construction
        isl = FitnessPredictorIsland(ea, gen, popsize, hall_of_fame=(None if via_setter else hof), predictor_population_size=4,
                                     trainer_population_size=4, predictor_size_ratio=ratio,
                                     predictor_computation_ratio=0.3, trainer_update_frequency=tuf,
                                     predictor_update_frequency=puf)
        if via_setter:
            isl.hall_of_fame = hof
        if r % 4 == 1:
            # what a SerialArchipelago does to every copy of its template island (and what a user may do by hand)
            isl.regenerate_population()
        ngen = rng.randint(4, 9)
        for g in range(ngen):
            isl.evolve(1)
            best = isl.get_best_individual()
            pop_before = [(p.fitness, p.fit_set) for p in isl.population]
            want = full(copy.deepcopy(best))
            out["comparisons"] += 1
            same = (want == best.fitness) or (math.isnan(want) and math.isnan(best.fitness))
            if not same:
                out["viol"].append("run %d seed %d gen %d (wrapped=%s puf=%d tuf=%d): best carries %r, full-data fitness is %r"
                                   % (r, s, g, wrapped, puf, tuf, best.fitness, want))
            if any(best is p for p in isl.population):
                out["viol"].append("run %d gen %d: reported best is the population object itself" % (r, g))
            for h in isl.hall_of_fame:
                w = full(copy.deepcopy(h))
                out["comparisons"] += 1
                if not ((w == h.fitness) or (math.isnan(w) and math.isnan(h.fitness))):
                    out["viol"].append("run %d seed %d gen %d (wrapped=%s): hall-of-fame entry carries %r, full-data fitness is %r"
                                       % (r, s, g, wrapped, h.fitness, w))
                    break
            out["generations"] += 1
        out["runs"] += 1
        out["samples"].append(dict(seed=s, wrapped=wrapped, data_points=npts, predictor_size_ratio=ratio, predictor_update=puf, trainer_update=tuf, generations=ngen,
                                   best=float(isl.get_best_individual().fitness)))
    return out


def parallel_source_ok():
    """ParallelArchipelago.get_best_individual must still be Python's min(key=fitness) over the allgathered bests
    (modelled by [pymin]); mpi4py is absent, so this part of the tie is a source-level pin (fail-closed)."""
    p = os.path.join(vlib.REPO, "bingo/evolutionary_optimizers/parallel_archipelago.py")
    try:
        tree = ast.parse(open(p).read())
    except Exception as e:  # noqa
        return False, "cannot parse: %r" % (e,)
    for n in ast.walk(tree):
        if isinstance(n, ast.FunctionDef) and n.name == "get_best_individual":
            body = [s for s in n.body if not (isinstance(s, ast.Expr) and isinstance(s.value, ast.Constant))]
            src = [ast.unparse(s) for s in body]
            want = ["best_on_proc = self.island.get_best_individual()",
                    "all_best_indvs = self.comm.allgather(best_on_proc)",
                    "best_indv = " + PAR_BEST_EXPECT,
                    "return best_indv"]
            return src == want, src
    return False, "get_best_individual not found"


def check(rep, proof):
    rng = random.Random(rep.seed)
    n = 2000 if rep.tier == "quick" else 40000
    exh = exhaustive_cases() if rep.tier == "thorough" else []
    cases = exh + [gen_case(rng) for _ in range(n)]
    pred_runs = 6 if rep.tier == "quick" else 60
    rc, res, out, wall = vlib.run_impl("c15", dict(cases=cases, pred_runs=pred_runs, seed=rep.seed), timeout=3000)
    if res is None:
        rep.violation("implementation harness crashed", dict(relation="corr_C15_best", log=out[-3000:]), has_input=False)
        return
    results, pred = res["results"], res["pred"]
    oracle_bad = [(i, r["viol"]) for i, r in enumerate(results) if r["viol"]]
    bad, log = vlib.coq_compare("c15", HEADER, RUNNER, [(coq_case(c), r["out"]) for c, r in zip(cases, results)])
    par_ok, par_src = parallel_source_ok()
    rep.coverage.update(
        evaluations=len(cases) + pred["comparisons"],
        distinct_nontrivial=len({repr((c["kind"], c["pops"])) for c in cases if sum(len(p) for p in c["pops"]) >= 2}),
        rule="island populations (0-40 slots) and serial archipelagos (1-8 islands) with NaN / +-inf / tied fitness in every "
             "position, incl. all-NaN islands and the evaluate-at-age-0 path; thorough adds every arrangement of <=5 slots over "
             "{NaN,-inf,1,1,2,inf} and small archipelago shapes over {NaN,1,2}; plus real FitnessPredictorIsland runs (AGraph + "
             "local optimisation wrapper, and float chromosomes) compared per generation with an independent full-data "
             "evaluation; non-trivial = at least two individuals; distinct by (kind, fitness layout)",
        samples=[cases[len(exh)], cases[len(exh) + 1]] + pred["samples"][:2],
        correspondence=dict(cases=len(cases), disagreements=len(bad), exhaustive_small_scope=len(exh)),
        predictor=dict(runs=pred["runs"], generations=pred["generations"], comparisons=pred["comparisons"]),
        oracle_violations=len(oracle_bad) + len(pred["viol"]),
        parallel_source_pin=par_ok,
    )
    rep.assumptions += [
        "non-NaN fitness values are modelled by an order embedding into Z",
        "ParallelArchipelago.get_best_individual is tied by a source-level pin to Python min(key=fitness) (mpi4py absent); "
        "its full-strength statement is refuted in the model (known finding F7b)",
        "predictor-island theorem: the full-data fitness function is an abstract function of the genome; the tie is the "
        "bit-for-bit comparison with an independent evaluation in real runs",
    ]
    for f in vlib.load_findings("C15"):
        if f["id"] == "F7b" and par_ok:
            rep.known.append("%s %s" % (f["id"], f["what"]))
    if oracle_bad:
        i, v = oracle_bad[0]
        rep.violation("; ".join(v), dict(case=cases[i], observed=results[i]["out"], oracle=v))
    elif pred["viol"]:
        rep.violation(pred["viol"][0], dict(kind="predictor island run", detail=pred["viol"][:5],
                                            how="tools/props/c15.py predictor_runs(seed=%d)" % rep.seed))
    elif bad:
        first = bad[0]
        mo = None if isinstance(first, tuple) else vlib.coq_eval_one(HEADER, "%s %s" % (RUNNER, coq_case(cases[first])))
        rep.violation("model and implementation disagree on which individual is returned; the returned one is still a minimum",
                      dict(relation="corr_C15_best (Model/Best.v scan vs Island/SerialArchipelago.get_best_individual)",
                           case=None if isinstance(first, tuple) else cases[first],
                           implementation=None if isinstance(first, tuple) else results[first]["out"], model=mo, log=log[-1500:]),
                      has_input=False)
    elif not par_ok:
        rep.violation("ParallelArchipelago.get_best_individual no longer matches the modelled min(key=fitness)",
                      dict(relation="source pin parallel_archipelago.get_best_individual", found=par_src), has_input=False)
    if not proof["ok"] and not rep.violations:
        rep.violation("proof obligation no longer checks: %s" % proof["broken"],
                      dict(theorem=proof["broken"], log=proof["log"][-3000:]), has_input=False)

"""C03: simplification and reduction preserve the functions an equation can express.
Correspondence (inside Coq, Model/Cas.v), stage by stage against the real functions: build_cas_expression, automatic_simplify,
optional_modifications, build_agraph_stack (fold_constants is an oracle: its real output is fed to the model's next stage).
Oracle on the real objects: reduce evaluates identically and has as many rows as utilized commands; simplify returns a well-formed
stack with no more constants, terminates, agrees pointwise for constant-free stacks at admissible points, and for polynomial
stacks with constants some constant vector reproduces the original (exact witnesses tried first, then least squares)."""
import itertools
import math
import random

import vlib
from props import c01

HEADER = """From Bingo Require Import Gen.OpDefs Model.Stack Model.Cas.
From Coq Require Import ZArith List Bool.
Import ListNotations.
Open Scope Z_scope.
Fixpoint enc (fuel : nat) (e : cexpr) : list Z :=
  match fuel with O => [(-9)] | S f =>
    match e with Leaf o v => [o; v] | Node o l => o :: Z.of_nat (length l) :: flat_map (enc f) l end end.
Definition enco (o : option cexpr) : list Z := match o with Some e => enc 400 e | None => [(-3)] end.
Definition F := 400%nat.
Definition runner (c : Z * list (Z * Z * Z) * cexpr) : list Z :=
  let '(kind, s, t) := c in
  if kind =? 0 then enco (build_cas s)
  else if kind =? 1 then
    (* the integer-exponent guard is switched on exactly for stacks without power operators: there the guarded model must still
       follow the code (the guard never fires), which is what ties the pointwise theorem over the reals to such equations *)
    let iexp := negb (existsb (fun c => (node_of c =? POWER) || (node_of c =? SAFE_POWER)) s) in
    enco (o_bind (build_cas s) (automatic_simplify true iexp fits64 F F))
  else if kind =? 2 then enco (optional_modifications F t)
  else match build_agraph_stack t with Some rows => flat_map (fun r => [node_of r; p1_of r; p2_of r]) rows | None => [(-3)] end."""
RUNNER = "runner"

ALL_OPS = list(range(2, 16))


def coq_tree(t):
    if t[0] in (-1, 0, 1):
        return "Leaf %s %s" % (vlib.cz(t[0]), vlib.cz(t[1]))
    return "Node %s [%s]" % (vlib.cz(t[0]), "; ".join("(%s)" % coq_tree(c) for c in t[1]))


def enc_tree(t):
    if t[0] in (-1, 0, 1):
        return [t[0], t[1]]
    out = [t[0], len(t[1])]
    for c in t[1]:
        out += enc_tree(c)
    return out


def coq_stack(s):
    return vlib.clist(s, lambda r: "(%s, %s, %s)" % (vlib.cz(r[0]), vlib.cz(r[1]), vlib.cz(r[2])))


def coq_case(c):
    return "(%d, %s, %s)" % (c["kind"], coq_stack(c["stack"]) if c.get("stack") else "(@nil (Z * Z * Z))",
                             "(%s)" % coq_tree(c["tree"]) if c.get("tree") is not None else "(Leaf 0 0)")


def gen_shared_abs(rng, D):
    """a constant used as a factor inside an absolute value AND outside it: |C*u| op C*v  (the sign of C matters)"""
    s = [[1, 0, 0], [0, rng.randrange(D), 0], rng.choice([[0, rng.randrange(D), 0], [-1, rng.choice([1, 2, 3]), 0]])]
    s[1][2], s[2][2] = s[1][1], s[2][1]
    s.append(rng.choice([[4, 0, 1], [4, 1, 0]]))        # C*u
    if rng.random() < 0.3:
        s.append([4, len(s) - 1, 1])                    # C*u*u
    s.append([11, len(s) - 1, len(s) - 1])              # |...|
    a = len(s) - 1
    s.append(rng.choice([[4, 0, 2], [4, 2, 0], [2, 0, 2]]))     # C*v or C+v
    b = len(s) - 1
    s.append([rng.choice([2, 3, 4]), a, b] if rng.random() < 0.5 else [rng.choice([2, 3]), b, a])
    if rng.random() < 0.3:
        s.append([rng.choice([11, 2, 4]), len(s) - 1, rng.randrange(len(s))])
    return s


def gen_case(rng):
    k = rng.random()
    D = rng.randint(1, 3)
    if k < 0.27:      # polynomial with constants
        s = c01.gen_stack(rng, rng.randint(2, 12), D, 3, [2, 3, 4, 4, 2], int_values=(0, 1, 2, 3, -1))
        kind = "poly"
    elif k < 0.35:    # polynomial with constants and absolute values: a constant used inside and outside an |.| keeps its sign
        s = c01.gen_stack(rng, rng.randint(3, 10), D, 2, [2, 3, 4, 4, 11, 11], int_values=(1, 2, -1)) if rng.random() < 0.5 \
            else gen_shared_abs(rng, D)
        kind = "abspoly"
    elif k < 0.5:     # constant free, no powers
        s = c01.gen_stack(rng, rng.randint(2, 12), D, 0, [2, 3, 4, 5, 6, 7, 8, 9, 11, 12, 14, 15, 2, 3, 4], int_values=(0, 1, 2, 3, -1, -2))
        kind = "nopow"
    elif k < 0.63:    # (0.5 - 0.63) functions of constant-only sub-expressions that SHARE constants with other uses (constant folding may only
        # replace a constant-valued group by a new constant when no other use of its constants is left behind)
        m = rng.randint(2, 3)
        s = [[1, i, i] for i in range(m)] + [[0, i, i] for i in range(D)]
        pool = list(range(m))
        for _ in range(rng.randint(1, 3)):
            if rng.random() < 0.5:
                s.append([rng.choice([2, 2, 3, 4]), rng.choice(pool), rng.choice(pool)])
            else:
                s.append([rng.choice([6, 7, 8]), rng.choice(pool), rng.choice(pool)])
                s[-1][2] = s[-1][1]
            pool.append(len(s) - 1)
        terms = []
        if rng.random() < 0.5:
            # the sharpest shape: f(Ca op Cb)*X, g(Ca)*X (or Ca*X), Cb*X - every constant has a use outside the mixed group
            a, b = rng.sample(range(m), 2)
            s.append([rng.choice([2, 3, 4]), a, b])
            s.append([rng.choice([6, 7, 8]), len(s) - 1, len(s) - 1])
            mixed = len(s) - 1
            s.append([rng.choice([6, 7, 8]), a, a])
            alone = len(s) - 1 if rng.random() < 0.7 else a
            for kp in rng.sample([mixed, alone, b], 3):
                v = m + rng.randrange(D)
                s.append([4, kp, v] if rng.random() < 0.5 else [4, v, kp])
                terms.append(len(s) - 1)
        for _ in range(rng.randint(2, 4) if not terms else rng.randint(0, 1)):
            kpick = rng.choice(pool) if rng.random() < 0.7 else rng.randrange(m)
            v = m + rng.randrange(D)
            s.append([rng.choice([4, 4, 4, 2]), kpick, v] if rng.random() < 0.5 else [4, v, kpick])
            if rng.random() < 0.25:
                s.append([rng.choice([6, 7]), len(s) - 1, len(s) - 1])
            terms.append(len(s) - 1)
        acc = terms[0]
        for t in terms[1:]:
            s.append([rng.choice([2, 2, 3]), acc, t])
            acc = len(s) - 1
        kind = "cfun"
    elif k < 0.66:    # a constant power of a power with a non-constant exponent, and of a product of three or more factors
        # ((u^v)^k -> u^(v*k);  (a*b*c)^k -> a^k*b^k*c^k: branches of _simplify_constant_power / _simplify_product_rec that random
        # stacks over all operators reach too rarely - anchored-code coverage showed them never executed in a quick run)
        s = [[0, i % D, i % D] for i in range(3)] + [[-1, 1, 1], [6, 0, 0], [8, 1, 1], [2, 0, 3]]   # X.., 1, sin, exp, X0+1
        atoms = [0, 1, 2, 4, 5, 6]
        kk = rng.choice([2, 3, -1, -2, 2, 4])
        if rng.random() < 0.5:
            u, v = rng.choice(atoms), rng.choice([1, 2, 4, 6, 5])
            s.append([rng.choice([10, 13, 10]), u, v])
            base = len(s) - 1
        else:
            a, b, c = rng.sample(atoms, 3)
            s += [[4, a, b], [4, len(s), c]]
            base = len(s) - 1
            if rng.random() < 0.4:
                s.append([4, base, rng.choice(atoms)])
                base = len(s) - 1
        s += [[-1, kk, kk], [rng.choice([10, 10, 13]), base, len(s)]]
        if rng.random() < 0.4:
            s.append([rng.choice([2, 4, 3]), len(s) - 1, rng.choice(atoms)])
        kind = "all"
    elif k < 0.8:     # constant free, all operators
        s = c01.gen_stack(rng, rng.randint(2, 12), D, 0, ALL_OPS, int_values=(0, 1, 2, 3, -1, -2))
        kind = "all"
    elif k < 0.85:    # everything
        s = c01.gen_stack(rng, rng.randint(2, 12), D, 3, ALL_OPS, int_values=(0, 1, 2, 3, -1, -2))
        kind = "allc"
    elif k < 0.9:     # a power of an even power with a compound, integer-built (rational) exponent: (x^2)^(1/2) is |x|, not x
        a, b = rng.choice([(1, 2), (3, 2), (1, 4), (2, 3), (-1, 2), (3, 4)])
        inner = rng.choice(["mul", "pow2", "sq_sum", "pow4"])
        s = [[0, 0, 0], [-1, 2, 2], [-1, 1, 1]]
        if inner == "mul":
            s.append([4, 0, 0])
        elif inner == "pow2":
            s.append([10, 0, 1])
        elif inner == "pow4":
            s += [[-1, 4, 4], [10, 0, 3]]
        else:
            s += [[2, 0, 2], [4, 3, 3]]
        base_row = len(s) - 1
        s += [[-1, a, a], [-1, b, b]]
        ia, ib = len(s) - 2, len(s) - 1
        if rng.random() < 0.5:
            s.append([5, ia, ib])                      # a / b
        else:
            s += [[-1, -1, -1], [10, ib, len(s)], [4, ia, len(s) + 1]]     # a * b^(-1)
        s.append([rng.choice([10, 13]), base_row, len(s) - 1])
        if D > 1 and rng.random() < 0.5:
            s += [[0, 1, 1], [rng.choice([2, 4]), len(s) - 1, len(s)]]
        kind = "all"
    else:             # integer arithmetic near and beyond the int64 range of the command array (exact rational oracle)
        s = c01.gen_stack(rng, rng.randint(2, 9), D, 0, [2, 3, 4, 4, 5, 10, 10],
                          int_values=(0, 1, 2, 3, -1, -2, 7, 10, 19, 30, 40, 63, 64, 100, 101, 2 ** 31, 3037000500, -3037000500, 2 ** 62,
                                      2 ** 63 - 1, -2 ** 63))
        kind = "bigint"
    return dict(stack=s, D=D, kind=kind)


def impl_main(payload):
    import signal
    import warnings
    import numpy as np
    from bingo.symbolic_regression.agraph.agraph import AGraph
    from bingo.symbolic_regression.agraph.simplification_backend import simplification_backend as sb
    from bingo.symbolic_regression.agraph.simplification_backend import interpreter, automatic_simplification as asimp
    from bingo.symbolic_regression.agraph.simplification_backend import constant_folding, optional_expression_modification as oem
    from bingo.symbolic_regression.agraph.evaluation_backend import evaluation_backend as eb
    warnings.simplefilter("ignore")
    np.seterr(all="ignore")
    rng = random.Random(payload["seed"])

    class TO(Exception):
        pass

    def on_alarm(*_):
        raise TO()

    signal.signal(signal.SIGALRM, on_alarm)

    def ser(e):
        if e.operator in (-1, 0, 1):
            return [int(e.operator), int(e.operands[0])]
        return [int(e.operator), [ser(o) for o in e.operands]]

    ARITY2 = {2, 3, 4, 5, 10, 13}

    def arity_ok(t):
        if t[0] in (-1, 0, 1):
            return True
        n = len(t[1])
        ok = (n == 1 and t[0] not in ARITY2) or (n == 2 and t[0] in ARITY2) or (n >= 3 and t[0] in (2, 4))
        return ok and all(arity_ok(c) for c in t[1])

    def exact_value(stack, xrow):
        """exact rational value of a constant-free stack over + - * / and integer powers; None where undefined or out of reach"""
        from fractions import Fraction
        vals = []
        for (n, p1, p2) in stack:
            if n == -1:
                v = Fraction(int(p1))
            elif n == 0:
                v = Fraction(xrow[p1])
            else:
                a, b = vals[p1], vals[p2]
                if a == "skip" or b == "skip":
                    v = "skip"
                elif a is None or b is None:
                    v = None
                elif n == 2:
                    v = a + b
                elif n == 3:
                    v = a - b
                elif n == 4:
                    v = a * b
                elif n == 5:
                    v = None if b == 0 else a / b
                elif n == 10:
                    if a == 0 and b < 0:
                        v = None
                    elif b.denominator != 1 or abs(b) > 80 or abs(a.numerator) > 10 ** 40 or a.denominator > 10 ** 40:
                        v = "skip"       # not a rational number, or out of reach of exact arithmetic
                    else:
                        v = a ** int(b)
                else:
                    v = "skip"
            vals.append(v)
        return vals[-1]

    def admissible_values(stack, x, cs):
        """row values by an independent evaluator; a point is admissible when every utilized intermediate is finite and moderate"""
        util = sb.get_utilized_commands(np.array(stack, dtype=int))
        ok = np.ones(x.shape[0], dtype=bool)
        vals = []
        for i, (n, p1, p2) in enumerate(stack):
            if n == -1:
                v = np.full(x.shape[0], float(p1))
            elif n == 0:
                v = x[:, p1].astype(float)
            elif n == 1:
                v = np.full(x.shape[0], float(cs[p1]))
            else:
                a = vals[p1]
                b = vals[p2]
                v = {2: lambda: a + b, 3: lambda: a - b, 4: lambda: a * b, 5: lambda: a / b, 6: lambda: np.sin(a), 7: lambda: np.cos(a),
                     8: lambda: np.exp(a), 9: lambda: np.log(np.abs(a)), 10: lambda: np.power(a, b), 11: lambda: np.abs(a),
                     12: lambda: np.sqrt(np.abs(a)), 13: lambda: np.power(np.abs(a), b), 14: lambda: np.sinh(a), 15: lambda: np.cosh(a)}[n]()
                if util[i]:
                    if n == 5:
                        ok &= np.abs(b) > 1e-3
                    if n in (9,):
                        ok &= np.abs(a) > 1e-3
                    if n in (10, 13):
                        ok &= (np.abs(a) > 1e-3)
            vals.append(v)
            if util[i]:
                ok &= np.isfinite(v) & (np.abs(v) < 1e4)
        return vals[-1], ok

    cases, exp, viol = [], [], []
    stats = dict(stacks=0, stages=0, pointwise=0, pointwise_points=0, fits=0, fit_exact=0, fit_lsq=0, reduce=0, timeouts=0, const_drop=0)
    for c in payload["cases"]:
        st = np.array(c["stack"], dtype=int)
        stats["stacks"] += 1
        D = c["D"]
        # ---- reduce
        red = sb.reduce_stack(st)
        util = sb.get_utilized_commands(st)
        if red.shape[0] != sum(util):
            viol.append("reduce_stack(%r) has %d rows, %d commands are utilized" % (c["stack"], red.shape[0], sum(util)))
        nc = int(np.count_nonzero(st[:, 0] == 1))
        x = np.array([[rng.uniform(0.5, 2.0) * rng.choice([-1, 1]) for _ in range(D)] for _ in range(8)])
        # constants of the raw stack are indexed by their parameter; number them 0..L-1 first, as AGraph does
        g0 = AGraph(use_simplification=False)
        g0.command_array = st.copy()
        L0 = g0.get_number_local_optimization_params()
        c0 = [round(rng.uniform(0.3, 2.0) * rng.choice([-1, 1]), 3) + 0.0137 for _ in range(L0)]
        g0.set_local_optimization_params(c0)
        y0 = np.asarray(g0.evaluate_equation_at(x), dtype=float).ravel()
        stats["reduce"] += 1
        # ---- stages of simplify, each against the model
        signal.alarm(10)
        try:
            e0 = interpreter.build_cas_expression(st)
            e1 = asimp.automatic_simplify(e0)
            e2 = constant_folding.fold_constants(e1)
            e3 = oem.optional_modifications(e2)
            out = interpreter.build_agraph_stack(e3)
            whole = sb.simplify_stack(st)
            signal.alarm(0)
        except TO:
            stats["timeouts"] += 1
            viol.append("simplify_stack(%r) did not return within 10 s" % (c["stack"],))
            continue
        except Exception as e:  # noqa
            signal.alarm(0)
            viol.append("simplify_stack(%r) raised %r" % (c["stack"], e))
            continue
        if not np.array_equal(np.asarray(out), np.asarray(whole)):
            viol.append("the stages of simplify do not compose to simplify_stack for %r" % (c["stack"],))
        cases.append(dict(kind=0, stack=c["stack"]))
        exp.append(enc_tree(ser(e0)))
        cases.append(dict(kind=1, stack=c["stack"]))
        exp.append(enc_tree(ser(e1)))
        cases.append(dict(kind=2, tree=ser(e2)))
        exp.append(enc_tree(ser(e3)))
        if not arity_ok(ser(e3)):
            stats["arity_outside"] = stats.get("arity_outside", 0) + 1      # outside the hypothesis of the build_agraph_stack theorem
        cases.append(dict(kind=3, tree=ser(e3)))
        exp.append([int(v) for r in np.asarray(out).reshape(-1, 3).tolist() for v in r])
        stats["stages"] += 4
        # ---- oracle: the result is a well-formed stack
        outl = np.asarray(out).reshape(-1, 3).tolist()
        bad_rows = [i for i, (n, p1, p2) in enumerate(outl)
                    if not ((n in (-1, 1)) or (n == 0 and 0 <= p1 < D) or (n >= 2 and 0 <= p1 < i and 0 <= p2 < i))]
        if not outl or bad_rows:
            viol.append("simplify_stack(%r) = %r is not a well-formed stack (rows %r)" % (c["stack"], outl, bad_rows))
            continue
        if not all(sb.get_utilized_commands(np.asarray(out))):
            viol.append("simplify_stack(%r) = %r contains unused rows" % (c["stack"], outl))
        g1 = AGraph(use_simplification=True)
        g1.command_array = st.copy()
        L1 = g1.get_number_local_optimization_params()
        if L1 > L0:
            viol.append("simplification of %r has %d constants, the reduced equation %d" % (c["stack"], L1, L0))
        stats["const_drop"] += int(L1 < L0)
        red_l = [list(map(int, r)) for r in g0._simplified_command_array.tolist()]
        ref, ok = admissible_values(red_l, x, c0)
        has_pow = any(r[0] in (10, 13) for r in red_l)
        if c["kind"] == "bigint":
            stats["exact_rational"] = stats.get("exact_rational", 0) + 1
            for xrow in ([2, 3, -1], [-3, 1, 5], [1, 1, 1]):
                a = exact_value([list(map(int, r)) for r in st.tolist()], xrow)
                if a is None or a == "skip":
                    continue
                b = exact_value(outl, xrow)
                if b == "skip":
                    continue
                stats["exact_rational_points"] = stats.get("exact_rational_points", 0) + 1
                if b is None or a != b:
                    viol.append("integer stack %r is exactly %s at x=%r, its simplification %r is %s"
                                % (c["stack"], a, xrow[:D], outl, "undefined" if b is None else b))
                    break
        elif L0 == 0:
            y1 = np.asarray(g1.evaluate_equation_at(x), dtype=float).ravel()
            sel = ok & (np.isfinite(y1) if has_pow else np.ones(len(ok), dtype=bool))
            stats["pointwise"] += 1
            stats["pointwise_points"] += int(sel.sum())
            if sel.any() and not np.allclose(y1[sel], y0[sel], rtol=1e-6, atol=1e-9):
                j = int(np.argmax(np.abs(y1 - y0) * sel))
                viol.append("constant-free stack %r evaluates to %r at x=%r, its simplification %r to %r"
                            % (c["stack"], float(y0[j]), x[j].tolist(), outl, float(y1[j])))
        elif c["kind"] in ("poly", "abspoly", "cfun") and L1 > 0:
            # some constant vector of the simplified equation must reproduce the original at every point
            stats["fits"] += 1
            xs = np.array([[rng.uniform(-2.0, 2.0) for _ in range(D)] for _ in range(30)])
            y = np.asarray(g0.evaluate_equation_at(xs), dtype=float).ravel()

            def resid(cv):
                g1.set_local_optimization_params(list(cv))
                return np.asarray(g1.evaluate_equation_at(xs), dtype=float).ravel() - y

            base = set(c0) | {1.0, -1.0, 0.0, 2.0} | ({abs(v) for v in c0} if c["kind"] == "abspoly" else set())
            if c["kind"] == "cfun":
                # a folded constant is the value of a constant-valued sub-expression of the original
                cvals, isconst = [], []
                for (n_, p1_, p2_) in red_l:
                    if n_ == 1:
                        cvals.append(float(c0[p1_])); isconst.append(True)
                    elif n_ == -1:
                        cvals.append(float(p1_)); isconst.append(True)
                    elif n_ == 0:
                        cvals.append(0.0); isconst.append(False)
                    else:
                        a_, b_ = cvals[p1_], cvals[p2_]
                        isconst.append(isconst[p1_] and (isconst[p2_] or n_ in (6, 7, 8)))
                        cvals.append({2: a_ + b_, 3: a_ - b_, 4: a_ * b_, 6: math.sin(a_), 7: math.cos(a_), 8: math.exp(min(a_, 50.0))}.get(n_, 0.0)
                                     if isconst[-1] else 0.0)
                base |= {v for v, ic in zip(cvals, isconst) if ic}
            cand = set(base)
            for a, b in itertools.product(list(base), repeat=2):
                cand |= {a + b, a * b, a - b}
            if c["kind"] != "cfun":
                for a, b in itertools.product(list(cand), list(base)):
                    cand |= {a + b, a * b}
            cand = sorted(cand)
            if c["kind"] == "cfun" and len(cand) ** L1 > 60000:
                cand_bf = sorted(base)
                for cv in itertools.product(cand_bf, repeat=L1):
                    if np.max(np.abs(resid(cv))) <= 1e-8 * (1.0 + float(np.max(np.abs(y)))):
                        stats["fit_exact"] += 1
                        cand = None
                        break
                if cand is None:
                    continue
            scale = 1.0 + float(np.max(np.abs(y)))
            found = False
            if len(cand) ** L1 <= 60000:
                for cv in itertools.product(cand, repeat=L1):
                    if np.max(np.abs(resid(cv))) <= 1e-8 * scale:
                        found = True
                        stats["fit_exact"] += 1
                        break
            if not found:
                from scipy.optimize import least_squares
                best = np.inf
                starts = [list(rng.choice(cand) for _ in range(L1)) for _ in range(30)] + [[rng.uniform(-3, 3) for _ in range(L1)] for _ in range(30)]
                for s0 in starts:
                    try:
                        r = least_squares(resid, s0, method="lm", xtol=1e-14, ftol=1e-14, gtol=1e-14)
                        best = min(best, float(np.max(np.abs(r.fun))))
                    except Exception:  # noqa
                        pass
                    if best <= 1e-7 * scale:
                        found = True
                        stats["fit_lsq"] += 1
                        break
                if not found and c["kind"] == "abspoly":
                    # |.| is not smooth in the constants: a second, derivative-free pass before anything is reported
                    from scipy.optimize import minimize
                    for s0 in starts[:40]:
                        try:
                            r = minimize(lambda cv: float(np.sum(resid(cv) ** 2)), s0, method="Nelder-Mead",
                                         options=dict(xatol=1e-13, fatol=1e-26, maxiter=4000, maxfev=4000))
                            best = min(best, float(np.max(np.abs(resid(r.x)))))
                        except Exception:  # noqa
                            pass
                        if best <= 1e-7 * scale:
                            found = True
                            stats["fit_lsq"] += 1
                            break
                if not found:
                    viol.append("stack %r with constants %r: no constant vector makes its simplification %r (%d constants) agree "
                                "(best maximal deviation %.3g over 30 points)" % (c["stack"], c0, outl, L1, best))
        elif c["kind"] in ("poly", "abspoly", "cfun") and L1 == 0:
            y1 = np.asarray(g1.evaluate_equation_at(x), dtype=float).ravel()
            if not np.allclose(y1, y0, rtol=1e-9, atol=1e-9):
                viol.append("polynomial stack %r with constants %r simplifies to the constant-free %r, which differs" % (c["stack"], c0, outl))
    return dict(cases=cases, exp=exp, viol=viol, stats=stats)


def check(rep, proof):
    rng = random.Random(rep.seed)
    n = 500 if rep.tier == "quick" else 12000
    cases = [gen_case(rng) for _ in range(n)]
    # scripted: shared constant sub-expressions under different parents, constants used alone and inside a folded group
    cases.append(dict(stack=[[1, -1, -1], [1, -1, -1], [2, 0, 1], [0, 0, 0], [0, 1, 1], [0, 2, 2], [4, 2, 3], [4, 2, 4], [4, 1, 5], [2, 6, 7], [2, 9, 8]],
                      D=3, kind="poly"))
    cases.append(dict(stack=[[1, 0, 0], [1, 1, 1], [4, 0, 1], [0, 0, 0], [4, 2, 3], [0, 1, 1], [4, 2, 5], [2, 4, 6], [4, 0, 3], [2, 7, 8]], D=2, kind="poly"))
    # corpus (seeded change C03-folding-search-skips-constant-subtree-interior): sin(C0 + C1)*X0 + exp(C0)*X1 + C1*X2 - C0 is used
    # inside a constant-only group together with C1 and alone under exp, C1 is pinned by a third use
    cases.append(dict(stack=[[1, 0, 0], [1, 1, 1], [0, 0, 0], [0, 1, 1], [0, 2, 2], [2, 0, 1], [6, 5, 5], [4, 6, 2], [8, 0, 0], [4, 8, 3],
                             [4, 1, 4], [2, 7, 9], [2, 11, 10]], D=3, kind="cfun"))
    # every composition f(g(u)) of two unary operators, u = X_0 - X_1 (negative on half of the plane): inverse-looking pairs such
    # as exp(log(u)) (= |u| here: the logarithm is log|u|), sqrt(u)^2, ||u|| must keep their value pointwise
    UN = [6, 7, 8, 9, 11, 12, 14, 15]
    for fi, f in enumerate(UN):
        for gi, g_ in enumerate(UN):
            st_ = [[0, 0, 0], [0, 1, 1], [3, 0, 1], [g_, 2, 2], [f, 3, 3]]
            if (fi + gi) % 2:
                st_.append([2, 4, 1])
            cases.append(dict(stack=st_, D=2, kind="nopow"))
    # like terms that share a constant-VALUED factor which is not a terminal: k*t + m*k*t with k = sin(2), exp(1), cos(3), |-2|
    for f, a in ((6, 2), (8, 1), (7, 3), (11, -2), (12, 5)):
        for m_, comb in ((3, 2), (5, 3), (1, 2), (-2, 2)):
            for t_rows in ([[0, 0, 0]], [[0, 0, 0], [0, 1, 1], [4, 2, 3]]):
                st_ = [[-1, a, a], [f, 0, 0]] + [list(r_) for r_ in t_rows]
                t_i = len(st_) - 1
                st_.append([4, 1, t_i])                    # k*t
                kt = len(st_) - 1
                st_ += [[-1, m_, m_], [4, len(st_), kt]]    # m*(k*t)
                st_.append([comb, kt, len(st_) - 1])
                cases.append(dict(stack=st_, D=2, kind="nopow"))
    cases.append(dict(stack=[[0, 0, 0], [-1, 3, 3], [13, 0, 1]], D=1, kind="all"))
    cases.append(dict(stack=[[0, 0, 0], [-1, 1, 1], [13, 0, 1]], D=1, kind="all"))
    rc, res, out, wall = vlib.run_impl("c03", dict(cases=cases, seed=rep.seed), timeout=3400)
    if res is None:
        rep.violation("implementation harness crashed", dict(relation="corr_C03_cas", log=out[-3000:]), has_input=False)
        return
    ccases, exp, stats = res["cases"], res["exp"], res["stats"]
    pairs = [(coq_case(c), e) for c, e in zip(ccases, exp)]
    bad, log = vlib.coq_compare("c03", HEADER, RUNNER, pairs, shard=200)
    rep.coverage.update(
        evaluations=stats["stacks"],
        distinct_nontrivial=len({repr(c["stack"]) for c in cases}),
        rule="random well-formed stacks (polynomial with constants; constant-free without powers; constant-free over all 14 operators; "
             "all operators with constants) of 2-12 rows: each stage of the real simplify (build_cas_expression, automatic_simplify, "
             "optional_modifications after the real fold_constants, build_agraph_stack) compared with the Coq model as trees/arrays; "
             "oracle: reduce length = utilized count, simplified stack well formed/all rows used/no more constants, 10 s alarm, pointwise "
             "agreement of constant-free stacks at admissible points (all intermediates finite and moderate, denominators/log arguments/"
             "power bases away from 0), constant fitting for polynomial stacks (algebraic candidates, then Levenberg-Marquardt)",
        samples=[cases[0]["stack"], cases[-4]["stack"]],
        correspondence=dict(cases=len(ccases), disagreements=len(bad)),
        implementation_stats=stats, oracle_violations=len(res["viol"]),
    )
    rep.assumptions += [
        "fold_constants is not modelled: it enters the theorems as an arbitrary function satisfying the stated contract, the harness feeds "
        "its real output to the model's next stage and tests the contract numerically on polynomial stacks",
        "the algebraic laws the simplifier relies on are hypotheses of the soundness theorem (they hold over the reals where every power "
        "base is positive and no denominator vanishes); floating-point rounding is not modelled",
        "termination is tested (10 s alarm); the model's recursions take fuel",
    ]
    widened = None
    if bad and not res["viol"]:
        # the correspondence is broken: look harder for a concrete failing input among stacks WITH constants over the operators
        # of the disagreeing cases (for + - * |.| the constant-fitting oracle is reliable)
        ops_bad = {row[0] for b in bad if not isinstance(b, tuple) for row in (ccases[b].get("stack") or []) if row[0] >= 2}
        rep.coverage["widened_search_ops"] = sorted(ops_bad)
        if ops_bad and ops_bad <= {2, 3, 4, 11}:
            rng2 = random.Random(rep.seed + 1)
            pool = [2, 3, 4, 4] + ([11, 11, 11] if 11 in ops_bad else [])
            extra = []
            for _ in range(1500):
                D2 = rng2.randint(1, 3)
                st2 = gen_shared_abs(rng2, D2) if (11 in ops_bad and rng2.random() < 0.5) else \
                    c01.gen_stack(rng2, rng2.randint(3, 9), D2, rng2.choice([1, 2]), pool, int_values=(1, 2, -1))
                extra.append(dict(stack=st2, D=D2, kind="abspoly" if 11 in ops_bad else "poly"))
            rc2, res2, out2, _ = vlib.run_impl("c03", dict(cases=extra, seed=rep.seed + 1), timeout=3000)
            if res2 is not None and res2["viol"]:
                widened = res2["viol"]
    if res["viol"]:
        rep.violation(res["viol"][0][:700], dict(oracle=res["viol"][:5], how="tools/props/c03.py impl_main (seed %d)" % rep.seed))
    elif widened:
        rep.violation(widened[0][:700], dict(oracle=widened[:5], disagreements=len(bad),
                                             how="widened search after the correspondence broke: tools/props/c03.py impl_main on 1500 "
                                                 "stacks with constants over the operators of the disagreeing cases (seed %d)" % (rep.seed + 1)))
    elif bad:
        first = bad[0]
        j = None if isinstance(first, tuple) else first
        mo = None if j is None else vlib.coq_eval_one(HEADER, "%s %s" % (RUNNER, pairs[j][0]))
        rep.violation("model and implementation disagree; property oracle found no failing input",
                      dict(relation="corr_C03_cas (Model/Cas.v vs simplification_backend)", case=None if j is None else ccases[j],
                           implementation=None if j is None else exp[j][:200], model=None if mo is None else mo[:200],
                           disagreements=len(bad), log=log[-1500:]), has_input=False)
    if not proof["ok"] and not rep.violations:
        rep.violation("proof obligation no longer checks: %s" % proof["broken"],
                      dict(theorem=proof["broken"], log=proof["log"][-3000:]), has_input=False)

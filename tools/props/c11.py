"""C11: migration conserves the population (serial archipelago); evolve(n) advances the age by n."""
import random

import vlib

HEADER = "From Bingo Require Import Model.Migration."
RUNNER = (
    "(fun c : list (list (nat * bool)) * nat * nat * list nat * list (list nat) => "
    "let '(isls, n, age, ages, tape) := c in "
    "match evolve (fun _ i => i) (mkArch age ages isls) n tape with "
    "| BadTape => [(-1)%Z] "
    "| Ok a => Z.of_nat (a_age a) :: map Z.of_nat (a_isl_ages a) ++ enc_islands (Ok (a_islands a)) end)")


def gen_case(rng):
    k = rng.randint(1, 7)
    if rng.random() < 0.6:
        sz = rng.randint(1, 12)
        sizes = [sz] * k
    else:
        sizes = [rng.randint(1, 9) for _ in range(k)]
    nid = 0
    isls = []
    for s in sizes:
        isl = []
        for _ in range(s):
            isl.append([nid, rng.random() < 0.6])
            nid += 1
        isls.append(isl)
    age = rng.randint(0, 5)
    # islands may be older than the archipelago (a template evolved before the archipelago was built, an island evolved on
    # its own): the archipelago's age still advances by exactly n
    isl_ages = [age + rng.choice([0, 0, 0, 1, 3]) for _ in isls] if rng.random() < 0.4 else [age] * len(isls)
    return dict(isls=isls, n=rng.randint(0, 4), age=age, isl_ages=isl_ages, calls=1)


def exhaustive_cases():
    out = []
    for k in range(1, 6):
        for sz in range(1, 5):
            nid, isls = 0, []
            for _ in range(k):
                isls.append([[nid + j, True] for j in range(sz)])
                nid += sz
            for rep in range(6):
                out.append(dict(isls=isls, n=1, age=0, calls=1, rep=rep))
    return out


def coq_case(c, tape):
    nat = lambda x: "%d%%nat" % x  # noqa
    isl = lambda i: vlib.clist(i, lambda p: "(%d%%nat, %s)" % (p[0], vlib.cbool(p[1])))  # noqa
    return "(%s, %s, %s, %s, %s)" % (vlib.clist(c["isls"], isl), nat(c["n"]), nat(c["age"]),
                                     vlib.clist(c.get("isl_ages", [c["age"]] * len(c["isls"])), nat),
                                     vlib.clist(tape, lambda cell: vlib.clist(cell, nat)))


def impl_main(payload):
    import numpy as np
    from bingo.chromosomes.multiple_values import MultipleValueChromosome
    from bingo.evolutionary_optimizers.island import Island
    from bingo.evolutionary_algorithms.ea_diagnostics import EaDiagnostics
    from bingo.evolutionary_optimizers.serial_archipelago import SerialArchipelago

    class StubEval:
        eval_count = 0

        def __call__(self, population):
            pass

    class StubEA:
        def __init__(self):
            self.evaluation = StubEval()
            self.diagnostics = EaDiagnostics()

        def generational_step(self, population):
            return population

    def gen():
        return MultipleValueChromosome([0])

    tape = []
    real_shuffle = np.random.shuffle

    def rec_shuffle(x):
        before = list(x)
        real_shuffle(x)
        if before and isinstance(before[0], (int, np.integer)):
            pos = {int(v): i for i, v in enumerate(before)}
            tape.append([pos[int(v)] for v in x])
        else:
            pos = {id(v): i for i, v in enumerate(before)}
            tape.append([pos[id(v)] for v in x])

    results = []
    for ci, c in enumerate(payload["cases"]):
        del tape[:]
        np.random.seed((payload["seed"] + 7919 * ci) % (2 ** 31))
        viol = []
        arch = SerialArchipelago(Island(StubEA(), gen, 0), num_islands=len(c["isls"]))
        allobjs = []
        for k_, (isl, spec) in enumerate(zip(arch.islands, c["isls"])):
            pop = []
            for (tag, fs) in spec:
                ind = MultipleValueChromosome([tag])
                ind.tag = tag
                ind.fitness = 1.0
                ind.fit_set = bool(fs)
                pop.append(ind)
            isl.population = pop
            isl.generational_age = c.get("isl_ages", [c["age"]] * len(c["isls"]))[k_]
            allobjs += pop
        arch.generational_age = c["age"]
        sizes0 = [len(i.population) for i in arch.islands]
        flags0 = [[p.fit_set for p in i.population] for i in arch.islands]
        ids0 = [[id(p) for p in i.population] for i in arch.islands]
        np.random.shuffle = rec_shuffle
        try:
            arch.evolve(c["n"])
        except Exception as e:  # noqa
            viol.append("evolve raised %r" % (e,))
        finally:
            np.random.shuffle = real_shuffle
        out = [arch.generational_age] + [i.generational_age for i in arch.islands] + [len(arch.islands)]
        for i in arch.islands:
            out.append(len(i.population))
            for p in i.population:
                out += [getattr(p, "tag", -5), 1 if p.fit_set else 0]
        # ---- oracle
        now = [p for i in arch.islands for p in i.population]
        if sorted(map(id, now)) != sorted(map(id, allobjs)):
            lost = len(set(map(id, allobjs)) - set(map(id, now)))
            dup = len(now) - len(set(map(id, now)))
            viol.append("multiset of individuals changed: %d lost, %d duplicated, %d before, %d after"
                        % (lost, dup, len(allobjs), len(now)))
        sizes1 = [len(i.population) for i in arch.islands]
        if len(set(sizes0)) == 1 and sizes1 != sizes0:
            viol.append("island sizes changed from %r to %r" % (sizes0, sizes1))
        if arch.generational_age != c["age"] + c["n"]:
            viol.append("archipelago age advanced by %d, requested %d" % (arch.generational_age - c["age"], c["n"]))
        changed = [k for k, i in enumerate(arch.islands) if [id(p) for p in i.population] != ids0[k]]
        untouched = [k for k in range(len(arch.islands)) if k not in changed]
        if sizes0 and min(sizes0) >= 2:
            # with >= 2 individuals everywhere a participating island always changes (it sends at least one away)
            if len(untouched) != len(arch.islands) % 2:
                viol.append("%d islands did not take part, exactly %d may sit out" % (len(untouched), len(arch.islands) % 2))
            for k in untouched:
                if [p.fit_set for p in arch.islands[k].population] != flags0[k]:
                    viol.append("island %d sat out but its flags changed" % k)
        for k in changed:
            if any(p.fit_set for p in arch.islands[k].population):
                viol.append("individual on participating island %d still marked evaluated" % k)
                break
        results.append(dict(out=out, viol=viol, tape=[list(t) for t in tape]))
    return dict(results=results)


def check(rep, proof):
    rng = random.Random(rep.seed)
    n = 2500 if rep.tier == "quick" else 50000
    exh = exhaustive_cases() if rep.tier == "thorough" else []
    cases = exh + [gen_case(rng) for _ in range(n)]
    rc, res, out, wall = vlib.run_impl("c11", dict(cases=cases, seed=rep.seed), timeout=3000)
    if res is None:
        rep.violation("implementation harness crashed", dict(relation="corr_C11_migration", log=out[-3000:]), has_input=False)
        return
    results = res["results"]
    oracle_bad = [(i, r["viol"]) for i, r in enumerate(results) if r["viol"]]
    # the parallel archipelago: the real ParallelArchipelago on the deterministic mpi4py stand-in of the C12 harness (2-5 ranks,
    # blocking and non-blocking calls, random interleavings); its evolutionary algorithm is the identity, individuals carry tags
    from props import c12
    prng = random.Random(rep.seed + 11)
    pcases = [c12.gen_case(prng) for _ in range(60 if rep.tier == "quick" else 1200)]
    prc, pres, pout, _ = vlib.run_impl("c12", dict(cases=pcases, seed=rep.seed), timeout=3000)
    par = pres["migration"] if pres is not None else dict(checks=0, exchanging_ranks=0, viol=["the parallel harness crashed: %s" % pout[-400:]])
    pairs = [(coq_case(c, r["tape"]), r["out"]) for c, r in zip(cases, results)]
    bad, log = vlib.coq_compare("c11", HEADER, RUNNER, pairs)
    rep.coverage.update(
        evaluations=len(cases),
        distinct_nontrivial=len({repr(c["isls"]) + repr(r["tape"]) for c, r in zip(cases, results)
                                 if len(c["isls"]) >= 2 and sum(map(len, c["isls"])) >= 2}),
        rule="real SerialArchipelago.evolve(n) on 1-7 islands of 1-12 tagged individuals (equal and unequal sizes, odd and even), "
             "an identity evolutionary algorithm so that only migration moves individuals; every np.random.shuffle outcome is "
             "recorded and replayed through Model/Migration.v; thorough adds islands<=5 x size<=4 x 6 seeds; non-trivial = at least "
             "two islands and two individuals; distinct by (layout, recorded tape)",
        samples=[dict(case=cases[len(exh)], tape=results[len(exh)]["tape"])],
        correspondence=dict(cases=len(cases), disagreements=len(bad), exhaustive_small_scope=len(exh)),
        oracle_violations=len(oracle_bad) + len(par["viol"]),
        parallel_archipelago=dict(evolve_calls_checked=par["checks"], ranks_whose_population_changed=par["exchanging_ranks"],
                                  rank_counts=sorted({c["n"] for c in pcases}), violations=len(par["viol"])),
        distribution=dict(islands=dict((k, sum(len(c["isls"]) == k for c in cases)) for k in range(1, 8)),
                          odd_sized=sum(any(len(i) % 2 for i in c["isls"]) for c in cases)),
    )
    rep.assumptions += [
        "np.random.shuffle permutes its argument in place (the harness records the permutation it applied)",
        "the parallel archipelago's migration is checked by the oracle only (multiset and sizes over all ranks, on the mpi4py stand-in "
        "of C12); Model/Migration.v is the serial pairing - the parallel pairing by sendrecv is not modelled",
    ]
    if oracle_bad:
        i, v = oracle_bad[0]
        rep.violation("; ".join(v), dict(case=cases[i], tape=results[i]["tape"], observed=results[i]["out"], oracle=v,
                                         numpy_seed=(rep.seed + 7919 * i) % 2 ** 31))
    elif par["viol"]:
        rep.violation(par["viol"][0][:700], dict(kind="ParallelArchipelago.evolve on the mpi4py stand-in", oracle=par["viol"][:4],
                                                 how="tools/props/c12.py impl_main with c12.gen_case (seed %d + 11)" % rep.seed))
    elif bad:
        first = bad[0]
        mo = None if isinstance(first, tuple) else vlib.coq_eval_one(HEADER, "%s %s" % (RUNNER, pairs[first][0]))
        rep.violation("model and implementation disagree; property oracle found no failing input",
                      dict(relation="corr_C11_migration (Model/Migration.v vs SerialArchipelago.evolve)",
                           case=None if isinstance(first, tuple) else cases[first],
                           tape=None if isinstance(first, tuple) else results[first]["tape"],
                           implementation=None if isinstance(first, tuple) else results[first]["out"], model=mo,
                           disagreements=len(bad), log=log[-1500:]), has_input=False)
    if not proof["ok"] and not rep.violations:
        rep.violation("proof obligation no longer checks: %s" % proof["broken"],
                      dict(theorem=proof["broken"], log=proof["log"][-3000:]), has_input=False)

"""C11: migration conserves the population (serial archipelago); evolve(n) advances the age by n."""
import random

import vlib

HEADER = "From Bingo Require Import Model.Migration."
RUNNER = (
    "(fun c : list (list (nat * bool)) * nat * nat * list nat * list (list nat) => "
    "let '(isls, n, age, ages, tape) := c in "
    "match evolve (fun _ i => i) (mkArch age ages isls) n tape with "
    "| BadTape => [(-1)%Z] "
    "| Ok a => Z.of_nat (a_age a) :: map Z.of_nat (a_isl_ages a) ++ enc_islands (Ok (a_islands a)) end)")


HEADER_P = "From Bingo Require Import Model.ParPartner."
RUNNER_P = ("(fun c : list nat * nat => match partner (fst c) (snd c) with None => [(-2)%Z] | Some None => [(-1)%Z] "
            "| Some (Some q) => [Z.of_nat q] end)")


def partner_results(orders):
    """the real ParallelArchipelago._get_migration_partner, called for every rank with the same broadcast shuffle (a stub stands
    in for the communicator: bcast hands every rank the list rank 0 shuffled)"""
    import os
    import sys
    sys.path.insert(0, os.path.join(os.path.dirname(os.path.dirname(os.path.abspath(__file__))), "vendor"))
    from bingo.evolutionary_optimizers.parallel_archipelago import ParallelArchipelago

    class Comm:
        def __init__(self, order):
            self.order = order

        def bcast(self, obj, root=0):
            return list(self.order)

    class Stub:
        pass
    out = []
    for order in orders:
        n = len(order)
        answers = []
        for rank in range(n):
            st = Stub()
            st.comm_rank, st.comm_size, st._num_islands, st.comm = rank, n, n, Comm(order)
            st._shuffle_island_indices = lambda _o=order: list(_o)
            try:
                p_ = ParallelArchipelago._get_migration_partner(st)
                answers.append(-1 if p_ is None else int(p_))
            except Exception as e:  # noqa
                answers.append(-2)
        viol = []
        lonely = [r for r, a in enumerate(answers) if a == -1]
        for r, a in enumerate(answers):
            if a == -2:
                viol.append("rank %d of %d: partner lookup raised (shuffle %r)" % (r, n, order))
            elif a >= 0 and (a == r or not 0 <= a < n or answers[a] != r):
                viol.append("shuffle %r: rank %d is told to exchange with rank %r, which is told %r - the exchange cannot complete"
                            % (order, r, a, answers[a] if 0 <= a < n else None))
        if len(lonely) != n % 2:
            viol.append("shuffle %r: ranks %r sit out, exactly %d may" % (order, lonely, n % 2))
        out.append(dict(order=order, answers=answers, viol=viol))
    return out


HEADER_M = """From Bingo Require Import Model.Migration Model.ParPartner Model.ParMigrate.
From Coq Require Import ZArith List Bool.
Import ListNotations.
Definition enc_isl (i : island) : list Z := flat_map (fun p : nat * bool => [Z.of_nat (fst p); (if snd p then 1 else 0)%Z]) i.
Definition runner_m (c : list nat * list (list (nat * bool) * list (nat * bool)) * list (list (nat * bool)) * list nat) : list Z :=
  let '(order, dumps, pops, sched) := c in
  let s := mrun order dumps sched (minit pops) in
  (if mfinal s then 1 else 0)%Z :: Z.of_nat (length (filter (fun m => match m with Some _ => true | None => false end) (mmail s)))
    :: flat_map (fun i : island => (-7)%Z :: enc_isl i) (mpops s)."""
RUNNER_M = "runner_m"


def parallel_migration_runs(nruns, seed):
    """the real ParallelArchipelago._coordinate_migration_between_islands on the deterministic mpi4py stand-in, one call per rank
    under a random interleaving; the shuffle is chosen by the harness (handed to rank 0), every rank's dump is recorded, and the
    order in which the ranks performed their send and their receive becomes the schedule of Model/ParMigrate.v"""
    import os
    import sys
    sys.path.insert(0, os.path.join(os.path.dirname(os.path.dirname(os.path.abspath(__file__))), "vendor"))
    import numpy as np
    import mpi4py.MPI as MPI
    from bingo.chromosomes.multiple_values import MultipleValueChromosome
    from bingo.evolutionary_algorithms.ea_diagnostics import EaDiagnostics
    from bingo.evolutionary_optimizers.island import Island
    from bingo.evolutionary_optimizers.parallel_archipelago import ParallelArchipelago

    class StubEval:
        eval_count = 0

        def __call__(self, population):
            pass

    class StubEA:
        def __init__(self):
            self.evaluation = StubEval()
            self.diagnostics = EaDiagnostics()

        def generational_step(self, population):
            return population
    rng = random.Random(seed + 5)
    out = []
    for t in range(nruns):
        n = rng.randint(1, 6)
        order = list(range(n))
        rng.shuffle(order)
        sizes = [rng.randint(1, 9)] * n if rng.random() < 0.6 else [rng.randint(1, 7) for _ in range(n)]
        flags = [[rng.random() < 0.6 for _ in range(sz)] for sz in sizes]
        sim = MPI.Simulation(n, [rng.randrange(64) for _ in range(400)], max_steps=20000)
        np.random.seed((seed + 31 * t) % (2 ** 31))

        def body(rank, _order=order, _sizes=sizes, _flags=flags):
            isl = Island(StubEA(), lambda: MultipleValueChromosome([0]), 0)
            pop = []
            for k in range(_sizes[rank]):
                ind = MultipleValueChromosome([0])
                ind.tag = rank * 100 + k
                if _flags[rank][k]:
                    ind.fitness = 1.0
                pop.append(ind)
            isl.population = pop
            arch = ParallelArchipelago(isl)
            arch._shuffle_island_indices = lambda: list(_order)
            pre = [[p.tag, bool(p.fit_set)] for p in isl.population]
            rec = {}
            real_dump = isl.dump_fraction_of_population

            def dump(fraction):
                d = real_dump(fraction)
                rec["to"] = [[p.tag, bool(p.fit_set)] for p in d]
                rec["rem"] = [[p.tag, bool(p.fit_set)] for p in isl.population]
                return d
            isl.dump_fraction_of_population = dump
            arch._coordinate_migration_between_islands()
            return dict(pre=pre, post=[[p.tag, bool(p.fit_set)] for p in isl.population], to=rec.get("to", []), rem=rec.get("rem", []),
                        dumped="to" in rec)
        sim.run(body)
        viol = []
        if sim.deadlock or sim.aborted or sim.errors or len(sim.results) != n:
            viol.append("migration among %d ranks with shuffle %r did not complete on every rank (deadlock %r, errors %r)"
                        % (n, order, sim.deadlock, {k: v[:200] for k, v in sim.errors.items()}))
            out.append(dict(n=n, order=order, viol=viol, skip=True))
            continue
        res = [sim.results[r] for r in range(n)]
        idle = [r for r in range(n) if not res[r]["dumped"]]
        sched = []
        for (r, label, _) in sim.events:
            if label in ("sendrecv_send", "sendrecv_recv") or (label == "bcast_leave" and r in idle):
                sched.append(r)
        left = sum(len(m) for m in sim.mail)
        before = sorted(p[0] for r_ in res for p in r_["pre"])
        after = sorted(p[0] for r_ in res for p in r_["post"])
        if before != after:
            viol.append("shuffle %r: individuals before %r, after %r" % (order, before, after))
        if len(idle) != n % 2:
            viol.append("shuffle %r: ranks %r did not exchange, exactly %d may sit out" % (order, idle, n % 2))
        for r in range(n):
            if r in idle and res[r]["post"] != res[r]["pre"]:
                viol.append("rank %d sat out but its population or flags changed" % r)
            if r not in idle and any(f for _, f in res[r]["post"]):
                viol.append("rank %d exchanged individuals and still holds one marked evaluated" % r)
        if len(set(sizes)) == 1 and any(len(r_["post"]) != sizes[0] for r_ in res):
            viol.append("equally sized islands (%d) end with sizes %r" % (sizes[0], [len(r_["post"]) for r_ in res]))
        if left:
            viol.append("%d messages left undelivered after the migration" % left)
        out.append(dict(n=n, order=order, dumps=[[r_["to"], r_["rem"]] for r_ in res], pops=[r_["pre"] for r_ in res], sched=sched,
                        post=[r_["post"] for r_ in res], left=left, viol=viol))
    return out


def gen_case(rng):
    k = rng.randint(1, 7)
    if rng.random() < 0.6:
        sz = rng.randint(1, 12)
        sizes = [sz] * k
    else:
        sizes = [rng.randint(1, 9) for _ in range(k)]
    nid = 0
    isls = []
    for s in sizes:
        isl = []
        for _ in range(s):
            isl.append([nid, rng.random() < 0.6])
            nid += 1
        isls.append(isl)
    age = rng.randint(0, 5)
    # islands may be older than the archipelago (a template evolved before the archipelago was built, an island evolved on
    # its own): the archipelago's age still advances by exactly n
    isl_ages = [age + rng.choice([0, 0, 0, 1, 3]) for _ in isls] if rng.random() < 0.4 else [age] * len(isls)
    return dict(isls=isls, n=rng.randint(0, 4), age=age, isl_ages=isl_ages, calls=1)


def exhaustive_cases():
    out = []
    for k in range(1, 6):
        for sz in range(1, 5):
            nid, isls = 0, []
            for _ in range(k):
                isls.append([[nid + j, True] for j in range(sz)])
                nid += sz
            for rep in range(6):
                out.append(dict(isls=isls, n=1, age=0, calls=1, rep=rep))
    return out


def coq_case(c, tape):
    nat = lambda x: "%d%%nat" % x  # noqa
    isl = lambda i: vlib.clist(i, lambda p: "(%d%%nat, %s)" % (p[0], vlib.cbool(p[1])))  # noqa
    return "(%s, %s, %s, %s, %s)" % (vlib.clist(c["isls"], isl), nat(c["n"]), nat(c["age"]),
                                     vlib.clist(c.get("isl_ages", [c["age"]] * len(c["isls"])), nat),
                                     vlib.clist(tape, lambda cell: vlib.clist(cell, nat)))


def impl_main(payload):
    import numpy as np
    from bingo.chromosomes.multiple_values import MultipleValueChromosome
    from bingo.evolutionary_optimizers.island import Island
    from bingo.evolutionary_algorithms.ea_diagnostics import EaDiagnostics
    from bingo.evolutionary_optimizers.serial_archipelago import SerialArchipelago

    class StubEval:
        eval_count = 0

        def __call__(self, population):
            pass

    class StubEA:
        def __init__(self):
            self.evaluation = StubEval()
            self.diagnostics = EaDiagnostics()

        mark = False

        def generational_step(self, population):
            if self.mark:               # what a real algorithm's evaluation phase does
                for p in population:
                    p.fit_set = True
            return population

    def gen():
        return MultipleValueChromosome([0])

    tape = []
    real_shuffle = np.random.shuffle

    def rec_shuffle(x):
        before = list(x)
        real_shuffle(x)
        if before and isinstance(before[0], (int, np.integer)):
            pos = {int(v): i for i, v in enumerate(before)}
            tape.append([pos[int(v)] for v in x])
        else:
            pos = {id(v): i for i, v in enumerate(before)}
            tape.append([pos[id(v)] for v in x])

    results = []
    for ci, c in enumerate(payload["cases"]):
        del tape[:]
        np.random.seed((payload["seed"] + 7919 * ci) % (2 ** 31))
        viol = []
        arch = SerialArchipelago(Island(StubEA(), gen, 0), num_islands=len(c["isls"]))
        allobjs = []
        for k_, (isl, spec) in enumerate(zip(arch.islands, c["isls"])):
            pop = []
            for (tag, fs) in spec:
                ind = MultipleValueChromosome([tag])
                ind.tag = tag
                ind.fitness = 1.0
                ind.fit_set = bool(fs)
                pop.append(ind)
            isl.population = pop
            isl.generational_age = c.get("isl_ages", [c["age"]] * len(c["isls"]))[k_]
            allobjs += pop
        arch.generational_age = c["age"]
        isls_actual = None
        if ci % 3 == 0:
            # an earlier evolve call (a migration and one generation) lies behind this archipelago, and its individuals have been
            # evaluated since (flags as the case prescribes): THIS call's migration must mark its participants again
            for isl in arch.islands:
                isl._ea.mark = True
            try:
                arch.evolve(1)
            except Exception as e:  # noqa
                viol.append("the preceding evolve(1) raised %r" % (e,))
            for isl in arch.islands:
                isl._ea.mark = False
            want_flags = [fs for spec in c["isls"] for (_, fs) in spec]
            k2 = 0
            for isl in arch.islands:
                for p in isl.population:
                    p.fit_set = bool(want_flags[k2 % len(want_flags)]) if want_flags else False
                    k2 += 1
            arch.generational_age = c["age"]
            for k_, isl in enumerate(arch.islands):
                isl.generational_age = c.get("isl_ages", [c["age"]] * len(c["isls"]))[k_]
            isls_actual = [[[p.tag, bool(p.fit_set)] for p in isl.population] for isl in arch.islands]
        sizes0 = [len(i.population) for i in arch.islands]
        flags0 = [[p.fit_set for p in i.population] for i in arch.islands]
        ids0 = [[id(p) for p in i.population] for i in arch.islands]
        np.random.shuffle = rec_shuffle
        try:
            arch.evolve(c["n"])
        except Exception as e:  # noqa
            viol.append("evolve raised %r" % (e,))
        finally:
            np.random.shuffle = real_shuffle
        out = [arch.generational_age] + [i.generational_age for i in arch.islands] + [len(arch.islands)]
        for i in arch.islands:
            out.append(len(i.population))
            for p in i.population:
                out += [getattr(p, "tag", -5), 1 if p.fit_set else 0]
        # ---- oracle
        now = [p for i in arch.islands for p in i.population]
        if sorted(map(id, now)) != sorted(map(id, allobjs)):
            lost = len(set(map(id, allobjs)) - set(map(id, now)))
            dup = len(now) - len(set(map(id, now)))
            viol.append("multiset of individuals changed: %d lost, %d duplicated, %d before, %d after"
                        % (lost, dup, len(allobjs), len(now)))
        sizes1 = [len(i.population) for i in arch.islands]
        if len(set(sizes0)) == 1 and sizes1 != sizes0:
            viol.append("island sizes changed from %r to %r" % (sizes0, sizes1))
        if arch.generational_age != c["age"] + c["n"]:
            viol.append("archipelago age advanced by %d, requested %d" % (arch.generational_age - c["age"], c["n"]))
        changed = [k for k, i in enumerate(arch.islands) if [id(p) for p in i.population] != ids0[k]]
        untouched = [k for k in range(len(arch.islands)) if k not in changed]
        if sizes0 and min(sizes0) >= 2:
            # with >= 2 individuals everywhere a participating island always changes (it sends at least one away)
            if len(untouched) != len(arch.islands) % 2:
                viol.append("%d islands did not take part, exactly %d may sit out" % (len(untouched), len(arch.islands) % 2))
            for k in untouched:
                if [p.fit_set for p in arch.islands[k].population] != flags0[k]:
                    viol.append("island %d sat out but its flags changed" % k)
        for k in changed:
            if any(p.fit_set for p in arch.islands[k].population):
                viol.append("individual on participating island %d still marked evaluated" % k)
                break
        results.append(dict(out=out, viol=viol, tape=[list(t) for t in tape], isls=isls_actual))
    return dict(results=results, partners=partner_results(payload.get("orders", [])),
                parmig=parallel_migration_runs(payload.get("parmig_runs", 0), payload.get("seed", 0)))


def check(rep, proof):
    rng = random.Random(rep.seed)
    n = 2500 if rep.tier == "quick" else 50000
    exh = exhaustive_cases() if rep.tier == "thorough" else []
    cases = exh + [gen_case(rng) for _ in range(n)]
    import itertools
    orders = [list(p_) for k in range(1, 6) for p_ in itertools.permutations(range(k))]        # every shuffle of up to 5 ranks
    for _ in range(150 if rep.tier == "quick" else 3000):
        o_ = list(range(rng.randint(6, 12)))
        rng.shuffle(o_)
        orders.append(o_)
    rc, res, out, wall = vlib.run_impl("c11", dict(cases=cases, seed=rep.seed, orders=orders,
                                                   parmig_runs=150 if rep.tier == "quick" else 3000), timeout=3000)
    if res is None:
        rep.violation("implementation harness crashed", dict(relation="corr_C11_migration", log=out[-3000:]), has_input=False)
        return
    results = res["results"]
    oracle_bad = [(i, r["viol"]) for i, r in enumerate(results) if r["viol"]]
    # the parallel archipelago: the real ParallelArchipelago on the deterministic mpi4py stand-in of the C12 harness (2-5 ranks,
    # blocking and non-blocking calls, random interleavings); its evolutionary algorithm is the identity, individuals carry tags
    from props import c12
    prng = random.Random(rep.seed + 11)
    pcases = [c12.gen_case(prng) for _ in range(60 if rep.tier == "quick" else 1200)]
    prc, pres, pout, _ = vlib.run_impl("c12", dict(cases=pcases, seed=rep.seed), timeout=3000)
    par = pres["migration"] if pres is not None else dict(checks=0, exchanging_ranks=0, viol=["the parallel harness crashed: %s" % pout[-400:]])
    pairs = [(coq_case(dict(c, isls=r["isls"]) if r.get("isls") is not None else c, r["tape"]), r["out"]) for c, r in zip(cases, results)]
    bad, log = vlib.coq_compare("c11", HEADER, RUNNER, pairs)
    partners = res.get("partners", [])
    ppairs = [("(%s, %d%%nat)" % (vlib.clist(pr["order"], lambda i: "%d%%nat" % i), r), [a]) for pr in partners for r, a in enumerate(pr["answers"])]
    badp, logp = vlib.coq_compare("c11p", HEADER_P, RUNNER_P, ppairs)
    pviol = [v for pr in partners for v in pr["viol"]]
    parmig = res.get("parmig", [])
    isl_ = lambda i: vlib.clist(i, lambda p: "(%d%%nat, %s)" % (p[0], vlib.cbool(p[1])))  # noqa
    natl = lambda l: vlib.clist(l, lambda i: "%d%%nat" % i)  # noqa
    mpairs = []
    for m in parmig:
        if m.get("skip"):
            continue
        exp_ = [1, m["left"]]
        for i in m["post"]:
            exp_.append(-7)
            for tg, fl in i:
                exp_ += [tg, 1 if fl else 0]
        mpairs.append(("(%s, %s, %s, %s)" % (natl(m["order"]), vlib.clist(m["dumps"], lambda d: "(%s, %s)" % (isl_(d[0]), isl_(d[1]))),
                                             vlib.clist(m["pops"], isl_), natl(m["sched"])), exp_))
    badm, logm = vlib.coq_compare("c11m", HEADER_M, RUNNER_M, mpairs)
    mviol = [v for m in parmig for v in m["viol"]]
    rep.coverage.update(
        evaluations=len(cases),
        distinct_nontrivial=len({repr(c["isls"]) + repr(r["tape"]) for c, r in zip(cases, results)
                                 if len(c["isls"]) >= 2 and sum(map(len, c["isls"])) >= 2}),
        rule="real SerialArchipelago.evolve(n) on 1-7 islands of 1-12 tagged individuals (equal and unequal sizes, odd and even), "
             "an identity evolutionary algorithm so that only migration moves individuals; every np.random.shuffle outcome is "
             "recorded and replayed through Model/Migration.v; thorough adds islands<=5 x size<=4 x 6 seeds; non-trivial = at least "
             "two islands and two individuals; distinct by (layout, recorded tape)",
        samples=[dict(case=cases[len(exh)], tape=results[len(exh)]["tape"])],
        correspondence=dict(cases=len(cases), disagreements=len(bad), exhaustive_small_scope=len(exh)),
        oracle_violations=len(oracle_bad) + len(par["viol"]) + len(pviol) + len(mviol),
        parallel_migration_phase=dict(runs=len(parmig), replayed_through_model=len(mpairs), disagreements=len(badm), violations=len(mviol),
                                      rank_counts=sorted({m["n"] for m in parmig})),
        parallel_pairing=dict(shuffles=len(partners), rank_answers=len(ppairs), exhaustive_up_to_ranks=5, disagreements=len(badp),
                              violations=len(pviol)),
        parallel_archipelago=dict(evolve_calls_checked=par["checks"], ranks_whose_population_changed=par["exchanging_ranks"],
                                  rank_counts=sorted({c["n"] for c in pcases}), violations=len(par["viol"])),
        distribution=dict(islands=dict((k, sum(len(c["isls"]) == k for c in cases)) for k in range(1, 8)),
                          odd_sized=sum(any(len(i) % 2 for i in c["isls"]) for c in cases)),
    )
    rep.assumptions += [
        "np.random.shuffle permutes its argument in place (the harness records the permutation it applied)",
        "the parallel archipelago's migration is checked by the oracle only (multiset and sizes over all ranks, on the mpi4py stand-in "
        "of C12); Model/Migration.v is the serial pairing, Model/ParPartner.v the partner every rank derives from the broadcast shuffle "
        "(tied by calling the real _get_migration_partner with a stub communicator), Model/ParMigrate.v the exchange phase as a "
        "transition system (tied by running the real _coordinate_migration_between_islands on the mpi4py stand-in under random "
        "interleavings and replaying the recorded send/receive order, shuffle and dumps through the model)",
    ]
    if oracle_bad:
        i, v = oracle_bad[0]
        rep.violation("; ".join(v), dict(case=cases[i], tape=results[i]["tape"], observed=results[i]["out"], oracle=v,
                                         numpy_seed=(rep.seed + 7919 * i) % 2 ** 31))
    elif mviol:
        rep.violation(mviol[0][:700], dict(kind="ParallelArchipelago._coordinate_migration_between_islands on the mpi4py stand-in",
                                           oracle=mviol[:4], how="tools/props/c11.py parallel_migration_runs (seed %d)" % rep.seed))
    elif pviol:
        rep.violation(pviol[0][:700], dict(kind="ParallelArchipelago._get_migration_partner for every rank of one shuffle", oracle=pviol[:4]))
    elif par["viol"]:
        rep.violation(par["viol"][0][:700], dict(kind="ParallelArchipelago.evolve on the mpi4py stand-in", oracle=par["viol"][:4],
                                                 how="tools/props/c12.py impl_main with c12.gen_case (seed %d + 11)" % rep.seed))
    elif bad:
        first = bad[0]
        mo = None if isinstance(first, tuple) else vlib.coq_eval_one(HEADER, "%s %s" % (RUNNER, pairs[first][0]))
        rep.violation("model and implementation disagree; property oracle found no failing input",
                      dict(relation="corr_C11_migration (Model/Migration.v vs SerialArchipelago.evolve)",
                           case=None if isinstance(first, tuple) else cases[first],
                           tape=None if isinstance(first, tuple) else results[first]["tape"],
                           implementation=None if isinstance(first, tuple) else results[first]["out"], model=mo,
                           disagreements=len(bad), log=log[-1500:]), has_input=False)
    if badm and not rep.violations:
        first = badm[0]
        mo = None if isinstance(first, tuple) else vlib.coq_eval_one(HEADER_M, "%s %s" % (RUNNER_M, mpairs[first][0]))
        rep.violation("model and implementation disagree on the parallel migration phase; property oracle found no failing input",
                      dict(relation="corr_C11_parmigrate (Model/ParMigrate.v vs ParallelArchipelago._coordinate_migration_between_islands)",
                           case=None if isinstance(first, tuple) else mpairs[first][0][:1500],
                           implementation=None if isinstance(first, tuple) else mpairs[first][1], model=mo,
                           disagreements=len(badm), log=logm[-1500:]), has_input=False)
    if badp and not rep.violations:
        first = badp[0]
        mo = None if isinstance(first, tuple) else vlib.coq_eval_one(HEADER_P, "%s %s" % (RUNNER_P, ppairs[first][0]))
        rep.violation("model and implementation disagree on the parallel partner lookup; property oracle found no failing input",
                      dict(relation="corr_C11_partner (Model/ParPartner.v vs ParallelArchipelago._get_migration_partner)",
                           case=None if isinstance(first, tuple) else ppairs[first][0],
                           implementation=None if isinstance(first, tuple) else ppairs[first][1], model=mo,
                           disagreements=len(badp), log=logp[-1500:]), has_input=False)
    if not proof["ok"] and not rep.violations:
        rep.violation("proof obligation no longer checks: %s" % proof["broken"],
                      dict(theorem=proof["broken"], log=proof["log"][-3000:]), has_input=False)

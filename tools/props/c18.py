"""C18: an equation object always behaves as its current stack and constants dictate.
Histories of public operations on several AGraph objects (setter writes, writes through a freshly obtained mutable view,
constant writes, every observer, fitness/age writes, copies of originals and of copies), with and without simplification.
 (a) correspondence: after every operation the white-box state of the touched object(s) (raw stack, cached stack, constants,
     flags, fitness, age - read without triggering a refresh) must equal the model's (Model/AGraphObj.v evaluated inside Coq;
     reduce_stack is the C01 model, simplify_stack is a recorded oracle table).
 (b) property oracle on the real objects: every observation equals that of a freshly built AGraph with the same stack,
     flag and constants; every operation leaves all other objects untouched; a copy observes like its source."""
import random

import vlib
from props import c01

HEADER = """From Bingo Require Import Gen.OpDefs Model.Stack Model.AGraphObj.
From Coq Require Import ZArith List Bool.
Import ListNotations.
Open Scope Z_scope.
Definition cmd_eqb (a b : cmd) : bool := (node_of a =? node_of b) && (p1_of a =? p1_of b) && (p2_of a =? p2_of b).
Fixpoint stack_eqb (a b : stack) : bool :=
  match a, b with [], [] => true | x :: r, y :: q => cmd_eqb x y && stack_eqb r q | _, _ => false end.
Definition S_of (tab : list (stack * stack)) (flag : bool) (s : stack) : stack :=
  if flag then match find (fun kv => stack_eqb (fst kv) s) tab with Some kv => snd kv | None => s end else reduce_stack s.
Definition b2z (b : bool) : Z := if b then 1 else 0.
Definition row (c : cmd) : list Z := [node_of c; p1_of c; p2_of c].
Definition enc_view (v : view Z) : list Z :=
  (-7777) :: flat_map row (v_cmd v) ++ (-7776) :: flat_map row (v_simp v) ++ (-7775) :: v_consts v ++
  [(-7774); b2z (v_needs v); b2z (v_mod v); b2z (v_flag v); match v_fit v with Some f => f | None => (-1) end; b2z (v_fset v); v_age v].
Definition runner (c : list (stack * stack) * list (op Z * list nat)) : list Z :=
  let '(tab, ops) := c in
  snd (fold_left (fun (st : world Z * list Z) (ow : op Z * list nat) =>
          let w' := step Z 1 (S_of tab) (fst st) (fst ow) in
          (w', snd st ++ flat_map (fun i => match view_at Z w' i with Some v => enc_view v | None => [(-1)] end) (snd ow)))
        ops (mkW [] [], []))."""
RUNNER = "runner"

OPS_ALL = [2, 3, 4, 5, 6, 7, 8, 9, 10, 11, 12, 13, 14, 15]
OBS_KINDS = ["needs", "nparams", "eval", "xgrad", "cgrad", "console", "latex", "stackstr", "complexity", "dunder_str"]
D = 2


def gen_row(rng, r, L):
    if r == 0 or rng.random() < 0.35:
        k = rng.random()
        if k < 0.4:
            return [0, rng.randrange(D), 0]
        if k < 0.8:
            j = rng.randrange(L)
            return [1, j, j]
        v = rng.choice([0, 1, 2, 3, -1])
        return [-1, v, v]
    return [rng.choice(OPS_ALL), rng.randrange(r), rng.randrange(r)]


def gen_history(rng, n_ops):
    """ops are JSON lists; the generator tracks raw stacks so that row writes stay well formed"""
    L = 4
    stacks, ops = [], []

    def new():
        s = c01.gen_stack(rng, rng.randint(1, 10), D, L, OPS_ALL, int_values=(0, 1, 2, 3, -1))
        flag = rng.random() < 0.4
        stacks.append([list(r) for r in s])
        ops.append(["new", flag, s])

    new()
    for _ in range(n_ops):
        i = rng.randrange(len(stacks))
        k = rng.random()
        if k < 0.06 and len(stacks) < 6:
            new()
        elif k < 0.18:
            s = c01.gen_stack(rng, rng.randint(1, 10), D, L, OPS_ALL, int_values=(0, 1, 2, 3, -1))
            stacks[i] = [list(r) for r in s]
            ops.append(["set", i, s])
        elif k < 0.36:
            r = rng.randrange(len(stacks[i]))
            row = gen_row(rng, r, L)
            stacks[i][r] = row
            ops.append(["row", i, r, row])
        elif k < 0.40:
            # the caller edits the array it got from the getter and assigns THE SAME OBJECT through the setter
            r = rng.randrange(len(stacks[i]))
            row = gen_row(rng, r, L)
            stacks[i][r] = row
            ops.append(["reset", i, r, row, [list(x) for x in stacks[i]]])
        elif k < 0.52:
            ops.append(["consts", i, [rng.randint(-3, 3) for _ in range(rng.randint(0, 6))]])
        elif k < 0.70:
            ops.append(["obs", i, rng.choice(OBS_KINDS)])
        elif k < 0.74:
            # the raw strings are read straight off the command array (no refresh): not a step of the model, oracle only
            fmt = rng.choice(["console", "latex", "stack", "sympy"])
            ops.append(["rawobs", i, fmt])
            if rng.random() < 0.6:          # read, write, read again with nothing in between
                r = rng.randrange(len(stacks[i]))
                row = gen_row(rng, r, L)
                stacks[i][r] = row
                ops.append(rng.choice([["row", i, r, row], ["reset", i, r, row, [list(x) for x in stacks[i]]]]))
                ops.append(["rawobs", i, fmt])
        elif k < 0.80:
            ops.append(["fit", i, rng.randint(0, 9)])
            if rng.random() < 0.4:
                # what Island.reset_fitness does: the flag is cleared, the value stays; a copy must carry exactly that
                ops.append(["flag", i, False])
                if rng.random() < 0.6 and len(stacks) < 6:
                    stacks.append([list(r) for r in stacks[i]])
                    ops.append(["copy", i])
        elif k < 0.82:
            ops.append(["flag", i, rng.random() < 0.5])
        elif k < 0.84:
            ops.append(["age", i, rng.randint(0, 9)])
        elif len(stacks) < 6:
            stacks.append([list(r) for r in stacks[i]])
            ops.append(["copy", i])
            if rng.random() < 0.5:
                kind = rng.choice(OBS_KINDS)
                ops.append(["obs", i, kind])
                ops.append(["obs", len(stacks) - 1, kind])
                ops[-1].append("pair")
        else:
            ops.append(["obs", i, rng.choice(OBS_KINDS)])
    # closing phase: write to every object in turn through a fresh mutable view, then read everybody
    for i in range(len(stacks)):
        r = len(stacks[i]) - 1
        row = [-1, 7, 7] if r == 0 or rng.random() < 0.5 else [2, r - 1, r - 1]
        stacks[i][r] = row
        ops.append(["row", i, r, row])
        for j in range(len(stacks)):
            ops.append(["obs", j, "eval" if j % 2 else "console"])
    return ops


def watch_of(op, n_objs):
    if op[0] == "new" or op[0] == "copy":
        return [n_objs]          # index of the object created
    return [op[1]]


def coq_stack(s):
    return vlib.clist(s, lambda r: "(%s, %s, %s)" % (vlib.cz(r[0]), vlib.cz(r[1]), vlib.cz(r[2])))


def coq_case(ops, table):
    out, n = [], 0
    for op in ops:
        if op[0] == "rawobs":
            continue
        w = watch_of(op, n)
        if op[0] == "new":
            t = "New %s %s" % (vlib.cbool(op[1]), coq_stack(op[2]))
            n += 1
        elif op[0] == "copy":
            t = "Copy %d%%nat" % op[1]
            n += 1
        elif op[0] == "set":
            t = "SetArray %d%%nat %s" % (op[1], coq_stack(op[2]))
        elif op[0] == "reset":
            t = "SetArray %d%%nat %s" % (op[1], coq_stack(op[4]))
        elif op[0] == "row":
            t = "WriteRow %d%%nat %d%%nat (%s, %s, %s)" % (op[1], op[2], vlib.cz(op[3][0]), vlib.cz(op[3][1]), vlib.cz(op[3][2]))
        elif op[0] == "consts":
            t = "SetConsts %d%%nat %s" % (op[1], vlib.clist(op[2]) if op[2] else "(@nil Z)")
        elif op[0] == "obs":
            t = "Observe %d%%nat" % op[1]
        elif op[0] == "fit":
            t = "SetFitness %d%%nat %s" % (op[1], vlib.cz(op[2]))
        elif op[0] == "flag":
            t = "SetFlag %d%%nat %s" % (op[1], vlib.cbool(op[2]))
        else:
            t = "SetAge %d%%nat %s" % (op[1], vlib.cz(op[2]))
        out.append("(%s, %s)" % (t, vlib.clist(w, lambda i: "%d%%nat" % i)))
    tab = "(@nil (stack * stack))" if not table else vlib.clist(table, lambda kv: "(%s, %s)" % (coq_stack(kv[0]), coq_stack(kv[1])))
    return "(%s, %s)" % (tab, "[" + "; ".join(out) + "]")


def impl_main(payload):
    import copy
    import dill
    import warnings
    import numpy as np
    from bingo.symbolic_regression.agraph.agraph import AGraph
    from bingo.symbolic_regression.agraph import agraph as agraph_mod
    sb = agraph_mod.simplification_backend
    warnings.simplefilter("ignore")
    np.seterr(all="ignore")
    X = np.array([[0.5, 1.5], [2.0, -0.75], [-1.25, 0.25]])

    table, nondet = {}, []
    real_simplify = sb.simplify_stack

    def recording_simplify(stack):
        key = tuple(map(tuple, np.asarray(stack).tolist()))
        out = real_simplify(stack)
        val = tuple(map(tuple, np.asarray(out).tolist()))
        if key in table and table[key] != val:
            nondet.append([key, table[key], val])
        table.setdefault(key, val)
        return out

    sb.simplify_stack = recording_simplify

    def wb(g):
        """white-box state, read without triggering a refresh"""
        return dict(cmd=np.asarray(g._command_array).tolist(), simp=np.asarray(g._simplified_command_array).tolist(),
                    consts=[float(c) for c in g._simplified_constants], needs=bool(g._needs_opt), mod=bool(g._modified),
                    flag=bool(g._use_simplification), fit=g._fitness, fset=bool(g._fit_set), age=g._genetic_age)

    def enc(v):
        out = [-7777] + [int(a) for r in v["cmd"] for a in r] + [-7776] + [int(a) for r in v["simp"] for a in r] + [-7775]
        out += [int(c) for c in v["consts"]]
        out += [-7774, int(v["needs"]), int(v["mod"]), int(v["flag"]), -1 if v["fit"] is None else int(v["fit"]), int(v["fset"]),
                int(v["age"])]
        return out

    def observe(g, kind):
        if kind == "needs":
            g.needs_local_optimization()       # flag is extra state; the refresh it triggers is what matters
            return ("n", g.get_number_local_optimization_params())
        if kind == "nparams":
            return ("n", g.get_number_local_optimization_params())
        if kind == "eval":
            return ("a", g.evaluate_equation_at(X))
        if kind == "xgrad":
            return ("aa",) + tuple(g.evaluate_equation_with_x_gradient_at(X))
        if kind == "cgrad":
            return ("aa",) + tuple(g.evaluate_equation_with_local_opt_gradient_at(X))
        if kind == "console":
            return ("s", g.get_formatted_string("console"))
        if kind == "latex":
            return ("s", g.get_formatted_string("latex"))
        if kind == "stackstr":
            return ("s", g.get_formatted_string("stack"))
        if kind == "complexity":
            return ("n", g.get_complexity())
        return ("s", str(g))

    def same(a, b):
        if a[0] != b[0] or len(a) != len(b):
            return False
        for u, v in zip(a[1:], b[1:]):
            if isinstance(u, np.ndarray) or isinstance(v, np.ndarray):
                u, v = np.asarray(u, dtype=float), np.asarray(v, dtype=float)
                if u.shape != v.shape or not np.array_equal(u, v, equal_nan=True):
                    return False
            elif u != v:
                return False
        return True

    def show(o):
        return [x.tolist() if isinstance(x, np.ndarray) else x for x in o]

    results = []
    stats = dict(ops=0, observations=0, copies=0, writes=0, refresh_resets=0, simp_objects=0, pair_checks=0)
    for hist in payload["histories"]:
        table.clear()
        objs, out, viol = [], [], []
        last_obs = {}
        try:
            for t, op in enumerate(hist):
                stats["ops"] += 1
                target = None if op[0] in ("new", "copy") else op[1]
                if op[0] == "rawobs":
                    g = objs[op[1]]
                    v0 = wb(g)
                    fresh = AGraph(use_simplification=v0["flag"])
                    fresh.command_array = np.array(v0["cmd"], dtype=int).reshape(-1, 3)
                    got, want = g.get_formatted_string(op[2], raw=True), fresh.get_formatted_string(op[2], raw=True)
                    stats["observations"] += 1
                    if got != want:
                        viol.append("step %d: raw %s string of object %d is %r; a fresh equation with the same stack %r gives %r"
                                    % (t, op[2], op[1], got, v0["cmd"], want))
                    if wb(g) != v0:
                        viol.append("step %d: reading a raw string changed the object" % t)
                    continue
                before = [(j, wb(g)) for j, g in enumerate(objs) if j != target]
                if op[0] == "new":
                    g = AGraph(use_simplification=op[1])
                    g.command_array = np.array(op[2], dtype=int)
                    objs.append(g)
                    stats["simp_objects"] += int(op[1])
                    watch = [len(objs) - 1]
                elif op[0] == "copy":
                    src = objs[op[1]]
                    srcv = wb(src)
                    # three ways bingo duplicates an equation: copy() (variation), deepcopy (islands, archipelagos) and a pickle
                    # round trip (what multi-process evaluation sends to and gets back from a worker, what a checkpoint stores)
                    how = t % 3
                    dup = src.copy() if how == 0 else (copy.deepcopy(src) if how == 1 else dill.loads(dill.dumps(src)))
                    objs.append(dup)
                    stats["copies"] += 1
                    stats["pickle_round_trips"] = stats.get("pickle_round_trips", 0) + int(how == 2)
                    watch = [len(objs) - 1]
                    dv = wb(dup)
                    if dv != srcv:
                        diff = [k for k in dv if dv[k] != srcv[k]]
                        viol.append("step %d: the copy differs from its source in %r: source %r copy %r"
                                    % (t, diff, {k: srcv[k] for k in diff}, {k: dv[k] for k in diff}))
                    if wb(src) != srcv:
                        viol.append("step %d: copying changed the source" % t)
                elif op[0] == "set":
                    objs[op[1]].command_array = np.array(op[2], dtype=int)
                    stats["writes"] += 1
                    watch = [op[1]]
                elif op[0] == "reset":
                    arr = objs[op[1]].command_array
                    arr.flags.writeable = True
                    arr[op[2]] = op[3]
                    objs[op[1]].command_array = arr
                    stats["writes"] += 1
                    watch = [op[1]]
                elif op[0] == "row":
                    view = objs[op[1]].mutable_command_array
                    view[op[2]] = op[3]
                    stats["writes"] += 1
                    watch = [op[1]]
                elif op[0] == "consts":
                    g = objs[op[1]]
                    n = g.get_number_local_optimization_params()
                    if len(op[2]) >= n:
                        g.set_local_optimization_params([float(c) for c in op[2][:n]])
                    watch = [op[1]]
                elif op[0] == "obs":
                    g = objs[op[1]]
                    v0 = wb(g)
                    fresh = AGraph(use_simplification=v0["flag"])
                    fresh.command_array = np.array(v0["cmd"], dtype=int).reshape(-1, 3)
                    fresh.set_local_optimization_params(tuple(v0["consts"]))
                    got = observe(g, op[2])
                    want = observe(fresh, op[2])
                    stats["observations"] += 1
                    if v0["mod"] and wb(g)["needs"] and not v0["needs"]:
                        stats["refresh_resets"] += 1
                    if not same(got, want):
                        viol.append("step %d: %s of object %d is %r; a fresh equation with the same stack %r, simplification=%r and "
                                    "constants %r gives %r" % (t, op[2], op[1], show(got), v0["cmd"], v0["flag"], v0["consts"], show(want)))
                    if len(op) > 3 and op[3] == "pair":
                        stats["pair_checks"] += 1
                        prev = last_obs.get("src")
                        if prev is not None and not same(prev, got):
                            viol.append("step %d: a copy observed right after copying gives %s = %r, its source gives %r"
                                        % (t, op[2], show(got), show(prev)))
                    last_obs["src"] = got
                    watch = [op[1]]
                elif op[0] == "fit":
                    objs[op[1]].fitness = op[2]
                    watch = [op[1]]
                elif op[0] == "flag":
                    objs[op[1]].fit_set = op[2]
                    watch = [op[1]]
                else:
                    objs[op[1]].genetic_age = op[2]
                    watch = [op[1]]
                if op[0] in ("set", "row", "reset"):
                    v1 = wb(objs[op[1]])
                    if not v1["mod"] or v1["fset"] or v1["fit"] is not None:
                        viol.append("step %d: a stack write left modified=%r fit_set=%r fitness=%r" % (t, v1["mod"], v1["fset"], v1["fit"]))
                for j, v in before:
                    now = wb(objs[j])
                    if now != v:
                        diff = [k for k in v if now[k] != v[k]]
                        viol.append("step %d: operation %r on object %r changed object %d (%r: %r -> %r)"
                                    % (t, op[:2], target, j, diff, {k: v[k] for k in diff}, {k: now[k] for k in diff}))
                for j in watch:
                    out += enc(wb(objs[j]))
        except Exception as e:  # noqa
            import traceback
            viol.append("step %d %r raised %r %s" % (t, op, e, traceback.format_exc()[-600:]))
            out.append(-3)
        if nondet:
            viol.append("simplify_stack returned two different results for the same input: %r" % (nondet[0],))
            del nondet[:]
        tab = [[list(map(list, k)), list(map(list, v))] for k, v in table.items()]
        results.append(dict(out=out, viol=viol, table=tab))

    # F18 regression scenarios (fixed d839e13): equations built from strings, copied before / after the first read
    fixed_viol = []
    for eq in ["X_0 + 2.5", "sin(X_0)*3.0 + X_1", "X_0", "2.0*X_0 - 0.5*X_1 + 1.5"]:
        for simp in (False, True):
            for read_first in (False, True):
                try:
                    g = AGraph(use_simplification=simp, equation=eq)
                    if read_first:
                        g.get_complexity()
                    dup = g.copy()
                    a, b = observe(g, "eval"), observe(dup, "eval")
                    sa, sb_ = observe(g, "console"), observe(dup, "console")
                    if not same(a, b) or not same(sa, sb_):
                        fixed_viol.append("AGraph(equation=%r, use_simplification=%r)%s: copy gives %r / %r, source %r / %r"
                                          % (eq, simp, " read first" if read_first else "", show(b), sb_, show(a), sa))
                except Exception as e:  # noqa
                    fixed_viol.append("AGraph(equation=%r, use_simplification=%r)%s then copy(): raised %r"
                                      % (eq, simp, " read first" if read_first else "", e))
    sb.simplify_stack = real_simplify
    return dict(results=results, stats=stats, string_viol=fixed_viol)


def check(rep, proof):
    rng = random.Random(rep.seed)
    n = 260 if rep.tier == "quick" else 6000
    hists = [gen_history(rng, rng.randint(4, 30)) for _ in range(n)]
    # scripted corner: write, copy while dirty, read both (the constants are state, not cache)
    hists.append([["new", False, [[1, 0, 0], [1, 1, 1], [2, 0, 1]]], ["obs", 0, "nparams"], ["consts", 0, [2, -3]],
                  ["row", 0, 2, [4, 0, 1]], ["copy", 0], ["obs", 0, "eval"], ["obs", 1, "eval", "pair"],
                  ["set", 1, [[1, 0, 0], [0, 0, 0], [2, 0, 1]]], ["copy", 1], ["obs", 2, "console"], ["obs", 0, "console"]])
    rc, res, out, wall = vlib.run_impl("c18", dict(histories=hists, seed=rep.seed), timeout=3400)
    if res is None:
        rep.violation("implementation harness crashed", dict(relation="corr_C18_object", log=out[-3000:]), has_input=False)
        return
    results, stats = res["results"], res["stats"]
    oracle_bad = [(i, r["viol"]) for i, r in enumerate(results) if r["viol"]]
    pairs = [(coq_case(h, r["table"]), r["out"]) for h, r in zip(hists, results)]
    bad, log = vlib.coq_compare("c18", HEADER, RUNNER, pairs, shard=60)
    kinds = {}
    for h in hists:
        for op in h:
            kinds[op[0]] = kinds.get(op[0], 0) + 1
    rep.coverage.update(
        evaluations=stats["ops"],
        distinct_nontrivial=len({repr(h) for h in hists if len(h) > 6}),
        rule="random histories over up to 6 live AGraph objects (40% with CAS simplification): setter writes (of a new array, and of the very array object the equation already "
             "holds after the caller edited it), row writes through a freshly obtained mutable view, constant writes (after querying the count), all ten observers, the four raw string formats, fitness/age writes, "
             "copy()/deepcopy/pickle round trip of originals and of copies, and a closing phase writing to every object then reading all; after every "
             "operation the white-box state of the touched objects is compared with the Coq model; oracle: each observation against "
             "a fresh AGraph(stack, flag, constants), all other objects unchanged by every operation, copy == source",
        samples=[hists[0][:8], hists[-1]],
        correspondence=dict(cases=len(hists), disagreements=len(bad)),
        operation_counts=kinds, implementation_stats=stats,
        oracle_violations=len(oracle_bad) + len(res["string_viol"]),
    )
    rep.assumptions += [
        "simplify_stack/reduce_stack enter the theorems as an arbitrary function S of (flag, stack); the harness checks that the real "
        "simplify_stack behaved as a function on every input it saw and uses the C01 model for reduce_stack",
        "arrays are modelled as cells of a store, objects hold references; numpy views other than a freshly obtained "
        "mutable_command_array, and stacks passed to the setter that the caller keeps writing to WITHOUT assigning them again, are outside the model (and the property)",
        "constant writes of the wrong length are outside the property (the harness queries the count first, as bingo's optimiser does)",
        "the string constructor is covered by scripted scenarios only (F18, fixed)",
    ]
    if oracle_bad:
        i, v = oracle_bad[0]
        rep.violation(v[0][:600], dict(history=hists[i], oracle=v[:5], how="tools/props/c18.py impl_main replays the history on real AGraph objects"))
    elif res["string_viol"]:
        rep.violation(res["string_viol"][0][:600], dict(kind="string-constructed equation", oracle=res["string_viol"][:5]))
    elif bad:
        first = bad[0]
        j = None if isinstance(first, tuple) else first
        mo = None if j is None else vlib.coq_eval_one(HEADER, "%s %s" % (RUNNER, pairs[j][0]))
        rep.violation("model and implementation disagree; property oracle found no failing input",
                      dict(relation="corr_C18_object (Model/AGraphObj.v vs AGraph)", history=None if j is None else hists[j],
                           implementation=None if j is None else results[j]["out"][:200], model=None if mo is None else mo[:200],
                           disagreements=len(bad), log=log[-1500:]), has_input=False)
    if not proof["ok"] and not rep.violations:
        rep.violation("proof obligation no longer checks: %s" % proof["broken"],
                      dict(theorem=proof["broken"], log=proof["log"][-3000:]), has_input=False)

"""C17: (a) multi-process evaluation equals serial evaluation; (b) seeded fits are reproducible across
interpreter hash seeds (test) and the operator table does not depend on set iteration order."""
import json
import os
import random
import subprocess

import vlib
from props import c19

HEADER, RUNNER = c19.HEADER, c19.RUNNER

FIT_SCRIPT = r"""
import sys, json
import numpy as np
from bingo.symbolic_regression.symbolic_regressor import SymbolicRegressor
cfg = json.loads(sys.argv[1])
# 1200 rows and more make the regressor co-evolve fitness predictors (FitnessPredictorIsland): part of the same seeded run
x = np.linspace(-3, 3, cfg.get("rows", 25)).reshape(-1, 1)
# a target the operator sets cannot express exactly: no fit ends at fitness 0, so any difference between the random streams
# of two fits shows in the best equation found
y = (np.sin(2.1 * x) * x + 0.37 * x ** 2 - 1.3).flatten()
kw = dict(population_size=24, stack_size=10, generations=cfg["generations"], max_time=1e7, random_state=cfg["seed"],
          use_simplification=cfg["simp"])
if cfg["ops"] is not None:
    # every collection type a caller may hand over; the unordered ones iterate in a hash-seed dependent order
    kw["operators"] = {"list": list, "tuple": tuple, "set": set, "frozenset": frozenset}[cfg.get("ops_type", "list")](cfg["ops"])
if cfg["ea"] is not None:
    kw["evolutionary_algorithm"] = cfg["ea"]
reg = SymbolicRegressor(**kw)
reg.fit(x, y)
best = reg.get_best_individual()
table = [str(i) for i in reg.component_generator._operator_pmf.items]
# two more fits in the same interpreter: the same object again, and a fresh object with the same parameters
reg.fit(x, y)
again = reg.get_best_individual()
fresh = SymbolicRegressor(**kw)
fresh.fit(x, y)
other = fresh.get_best_individual()
print("RESULT " + json.dumps(dict(eq=str(best), fitness=float(best.fitness).hex(), table=table,
                                  refit=[str(again), float(again.fitness).hex()], fresh=[str(other), float(other.fitness).hex()])))
"""


def impl_main(payload):
    import copy
    from bingo.evaluation.evaluation import Evaluation
    from bingo.local_optimizers.local_opt_fitness import LocalOptFitnessFunction
    from props.c19_fit import ToyChrom, SleepyFitness, ToyOptimizer, REAL_CALLS
    results = []
    for c in payload["cases"]:
        out, viol = c19.run_phase_case(c)
        # direct property oracle: the same population through serial and through worker processes
        def build():
            base = SleepyFitness()
            base.eval_count = c["c0"]
            fn = LocalOptFitnessFunction(base, ToyOptimizer(base))
            pop = []
            for (g, f, s) in c["pop"]:
                ind = ToyChrom([g])
                if s:
                    ind.fitness = float(f)
                pop.append(ind)
            fn.base_ = base
            return fn, pop
        fs, ps = build()
        es = Evaluation(fs, redundant=c["red"])
        es(ps)
        fm, pm = build()
        em = Evaluation(fm, redundant=c["red"], multiprocess=c["procs"])
        em(pm)
        if fs.eval_count != fm.eval_count:
            viol.append("serial evaluation reports %d evaluations, %d worker processes report %d"
                        % (fs.eval_count, c["procs"], fm.eval_count))
        for j, (a, b) in enumerate(zip(ps, pm)):
            if a.values != b.values or a.fitness != b.fitness or a.fit_set != b.fit_set:
                viol.append("slot %d differs: serial (%r, %r, %r) vs multi-process (%r, %r, %r)"
                            % (j, a.values, a.fitness, a.fit_set, b.values, b.fitness, b.fit_set))
                break
        if not viol:
            # second phase through the SAME evaluation objects after the fitness function was changed in place (what the
            # predictor island and the subset evaluation do to training_data): every slot gets what the function assigns NOW
            for fn in (fs, fm):
                fn.base_.training_data = 500.0
            for p in ps + pm:
                p.fit_set = False
            es(ps)
            em(pm)
            for j, (a, b) in enumerate(zip(ps, pm)):
                due = float(a.values[0]) + 500.0
                if a.values != b.values or a.fitness != b.fitness or b.fitness != due:
                    viol.append("second phase after an in-place change of the fitness function, slot %d: serial (%r, %r) vs "
                                "multi-process (%r, %r); the function now assigns %r"
                                % (j, a.values, a.fitness, b.values, b.fitness, due))
                    break
            if fs.eval_count != fm.eval_count:
                viol.append("after two phases serial evaluation reports %d evaluations, %d worker processes report %d"
                            % (fs.eval_count, c["procs"], fm.eval_count))
        results.append(dict(out=out, viol=viol))
    return dict(results=results, agraph=agraph_parallel_runs(payload.get("agraph_runs", 0), payload.get("seed", 0)))


def agraph_parallel_runs(nruns, seed):
    """real AGraph populations through serial and through worker-process evaluation: fresh random equations with constants
    set by hand, offspring of mutation and crossover that inherited constants and whose stack was modified since the last
    update (their derived state is pending when they are pickled for the worker), and already-evaluated individuals.  Every
    slot must end up with the same stack, the same constants and the same fitness either way."""
    import numpy as np
    from bingo.evaluation.evaluation import Evaluation
    from bingo.symbolic_regression import AGraphGenerator, ComponentGenerator, AGraphMutation, AGraphCrossover, \
        ExplicitRegression, ExplicitTrainingData
    out = dict(runs=0, slots=0, pending_with_constants=0, viol=[])
    rng = random.Random(seed + 5)
    for r in range(nruns):
        s = rng.randrange(10 ** 6)
        x = np.linspace(-1, 2, 12).reshape(-1, 1)
        td = ExplicitTrainingData(x, 1.5 * x ** 2 - 0.7 * x + 0.3)

        def build():
            np.random.seed(s)
            random.seed(s)
            lr = random.Random(s)
            cg = ComponentGenerator(1)
            for o in ("+", "-", "*"):
                cg.add_operator(o)
            gen, mut, cx = AGraphGenerator(10, cg), AGraphMutation(cg), AGraphCrossover()

            def parent():
                p = gen()
                n = p.get_number_local_optimization_params()
                p.set_local_optimization_params([round(lr.uniform(-3, 3), 3) for _ in range(n)])
                return p
            pop = []
            for j in range(8):
                p = parent()
                if j % 4 == 1:
                    p = mut(p)
                elif j % 4 == 2:
                    p = cx(p, parent())[j % 2]
                elif j % 4 == 3:
                    p.fitness = 123.0
                pop.append(p)
            return pop
        ps, pm = build(), build()
        out["pending_with_constants"] += sum(1 for p in ps if p._modified and len(p._simplified_constants) > 0) \
            if hasattr(ps[0], "_modified") else 0
        fs, fm = ExplicitRegression(training_data=td), ExplicitRegression(training_data=td)
        try:
            Evaluation(fs)(ps)
            Evaluation(fm, multiprocess=2)(pm)
        except Exception as e:  # noqa
            out["viol"].append("AGraph population seed %d: evaluation raised %r" % (s, e))
            break
        if fs.eval_count != fm.eval_count:
            out["viol"].append("AGraph population seed %d: serial evaluation reports %d evaluations, 2 worker processes report %d"
                               % (s, fs.eval_count, fm.eval_count))
        for j, (a, b) in enumerate(zip(ps, pm)):
            out["slots"] += 1
            fa, fb = a.fitness, b.fitness
            same_fit = fa == fb or (fa != fa and fb != fb)
            if not np.array_equal(a.command_array, b.command_array) or tuple(a.constants) != tuple(b.constants) or not same_fit \
                    or a.fit_set != b.fit_set:
                out["viol"].append("AGraph population seed %d slot %d (%s): serial evaluation leaves constants %r fitness %r, evaluation "
                                   "with 2 worker processes leaves constants %r fitness %r (stack %r)"
                                   % (s, j, ["fresh", "mutated offspring", "crossover offspring", "already evaluated"][j % 4],
                                      tuple(a.constants), fa, tuple(b.constants), fb, a.command_array.tolist()))
                break
        out["runs"] += 1
        if out["viol"]:
            break
    return out


def hash_seed_fits(tier, seed):
    """fit in fresh interpreter processes under different PYTHONHASHSEEDs; same best equation / fitness bytes expected"""
    rng = random.Random(seed)
    cfgs = [dict(ops=None, ea=None, simp=False), dict(ops=None, ea="GeneralizedCrowdingEA", simp=True),
            dict(ops=["+", "-", "*", "sin", "cos", "exp"], ops_type="frozenset", ea=None, simp=False),
            dict(ops=["+", "-", "*", "/", "sqrt", "cos"], ops_type="set", ea=None, simp=False),
            dict(ops=None, ea=None, simp=False, rows=1300)]
    if tier == "thorough":
        cfgs += [dict(ops=["+", "-", "*", "/", "sin"], ea=None, simp=True), dict(ops=None, ea=None, simp=True),
                 dict(ops=["+", "-", "*", "/", "sin", "cos"], ops_type="tuple", ea=None, simp=False),
                 dict(ops=["+", "*", "sin", "cos", "exp", "log"], ops_type="frozenset", ea="GeneralizedCrowdingEA", simp=True),
                 dict(ops=["+", "*", "cos"], ea="GeneralizedCrowdingEA", simp=False),
                 dict(ops=None, ea="GeneralizedCrowdingEA", simp=False)]
    hseeds = ["0", "1", "2", "11", "123", "4242"]
    env = vlib.impl_env()
    env.pop("OMP_NUM_THREADS", None)
    jobs = []
    for ci, cfg in enumerate(cfgs):
        cfg = dict(cfg, generations=20, seed=(0 if ci == 1 else rng.randrange(1000)))      # random_state = 0 is a seed like any other
        for hs in hseeds:
            e = dict(env)
            e["PYTHONHASHSEED"] = hs
            p = subprocess.Popen([vlib.PY, "-c", FIT_SCRIPT, json.dumps(cfg)], env=e, stdout=subprocess.PIPE,
                                 stderr=subprocess.PIPE, text=True, cwd=os.path.join(vlib.VERIF, "work"))
            jobs.append((ci, cfg, hs, p))
    res, viol = {}, []
    for ci, cfg, hs, p in jobs:
        try:
            so, se = p.communicate(timeout=1500)
        except subprocess.TimeoutExpired:
            p.kill()
            viol.append("fit under PYTHONHASHSEED=%s did not finish" % hs)
            continue
        line = [l for l in so.splitlines() if l.startswith("RESULT ")]
        if not line:
            viol.append("fit under PYTHONHASHSEED=%s failed: %s" % (hs, se[-400:]))
            continue
        res.setdefault(ci, []).append((hs, cfg, json.loads(line[0][7:])))
    for ci, lst in res.items():
        ref = lst[0]
        for hs, cfg, r in lst:
            for what, key in (("the same regressor object fitted a second time", "refit"), ("a fresh regressor with the same parameters", "fresh")):
                if key in r and r[key] != [r["eq"], r["fitness"]]:
                    viol.append("same interpreter (PYTHONHASHSEED=%s), same data, parameters and random_state=%d: the first fit gives %r (fitness %s), "
                                "%s gives %r (%s); config %r" % (hs, cfg["seed"], r["eq"], r["fitness"], what, r[key][0], r[key][1], cfg))
                    break
        for hs, cfg, r in lst[1:]:
            if r["table"] != ref[2]["table"]:
                viol.append("operator sampling table differs between PYTHONHASHSEED=%s %r and %s %r (config %r)"
                            % (ref[0], ref[2]["table"], hs, r["table"], cfg))
                break
            if (r["eq"], r["fitness"]) != (ref[2]["eq"], ref[2]["fitness"]):
                viol.append("same data, parameters and random_state=%d give %r (fitness %s) under PYTHONHASHSEED=%s but %r (%s) under %s; config %r"
                            % (cfg["seed"], ref[2]["eq"], ref[2]["fitness"], ref[0], r["eq"], r["fitness"], hs, cfg))
                break
    return dict(fits=sum(len(v) for v in res.values()), configs=len(cfgs), viol=viol,
                samples=[dict(config=lst[0][1], result=lst[0][2]) for lst in res.values()][:2])


def check(rep, proof):
    rng = random.Random(rep.seed)
    n = 250 if rep.tier == "quick" else 4000
    cases = [c19.gen_case(rng, multi=True, fault=False) for _ in range(n)]
    os.makedirs(os.path.join(vlib.VERIF, "work"), exist_ok=True)
    rc, res, out, wall = vlib.run_impl("c17", dict(cases=cases, seed=rep.seed, agraph_runs=8 if rep.tier == "quick" else 120), timeout=3400)
    if res is None:
        rep.violation("implementation harness crashed", dict(relation="corr_C17_evalphase", log=out[-3000:]), has_input=False)
        return
    results = res["results"]
    agp = res.get("agraph") or dict(runs=0, slots=0, pending_with_constants=0, viol=[])
    fits = hash_seed_fits(rep.tier, rep.seed)
    oracle_bad = [(i, r["viol"]) for i, r in enumerate(results) if r["viol"]]
    pairs = [(c19.coq_case(c), r["out"]) for c, r in zip(cases, results)]
    bad, log = vlib.coq_compare("c17", HEADER, RUNNER, pairs)
    rep.coverage.update(
        evaluations=len(cases) + fits["fits"],
        distinct_nontrivial=len({repr(c) for c in cases if len(c["pop"]) >= 2}),
        rule="(a) the same population (0-9 individuals, mixed flags, redundant on/off) evaluated serially and with 1-3 worker "
             "processes whose completion order is scrambled by genome-dependent sleeps; slots, fitness values, flags and counts "
             "compared with each other and with Model/EvalPhase.v; real AGraph populations (fresh, mutated and crossed-over offspring "
             "with inherited constants and a pending update, already evaluated ones) evaluated serially and with 2 worker processes, "
             "stack / constants / fitness / flag compared slot by slot; (b) SymbolicRegressor fits in fresh interpreter processes under 6 "
             "PYTHONHASHSEEDs per configuration - each process fits the same object twice and a fresh object once - best equation / "
             "fitness bytes / operator table compared within and across processes (test)",
        samples=[cases[0]] + fits["samples"],
        correspondence=dict(cases=len(cases), disagreements=len(bad)),
        hash_seed_test=dict(fits=fits["fits"], configurations=fits["configs"], violations=len(fits["viol"]),
                            note="test, not a theorem"),
        agraph_serial_vs_worker_processes=dict(runs=agp["runs"], slots=agp["slots"], violations=len(agp["viol"]),
                                               offspring_pickled_with_pending_update_and_constants=agp["pending_with_constants"]),
        oracle_violations=len(oracle_bad) + len(fits["viol"]) + len(agp["viol"]),
    )
    rep.assumptions += [
        "clause (a): pickling = independent copy; results consumed in submission order",
        "clause (b) is PARTIAL: only the set-iteration order of the operator collection is modelled (theorem: sorted registration "
        "is order independent); everything else CPython/numpy/scipy might vary between processes is covered by the subprocess test",
        "local optimisation draws random starting points, so fitness VALUES under local optimisation are reproducible only for a fixed seed",
    ]
    if oracle_bad:
        i, v = oracle_bad[0]
        rep.violation("; ".join(v[:3]), dict(case=cases[i], observed=results[i]["out"], oracle=v))
    elif agp["viol"]:
        rep.violation(agp["viol"][0], dict(kind="AGraph population, serial against worker-process evaluation", detail=agp["viol"][:3],
                                           how="tools/props/c17.py agraph_parallel_runs (seed %d)" % rep.seed))
    elif fits["viol"]:
        rep.violation(fits["viol"][0], dict(kind="hash-seed subprocess fits", detail=fits["viol"][:4],
                                            how="tools/props/c17.py hash_seed_fits"))
    elif bad:
        first = bad[0]
        j = None if isinstance(first, tuple) else first
        mo = None if j is None else vlib.coq_eval_one(HEADER, "%s %s" % (RUNNER, pairs[j][0]))
        rep.violation("model and implementation disagree; property oracle found no failing input",
                      dict(relation="corr_C17_evalphase (Model/EvalPhase.v vs Evaluation._multiprocess_eval)",
                           case=None if j is None else cases[j], implementation=None if j is None else results[j]["out"],
                           model=mo, disagreements=len(bad), log=log[-1500:]), has_input=False)
    if not proof["ok"] and not rep.violations:
        rep.violation("proof obligation no longer checks: %s" % proof["broken"],
                      dict(theorem=proof["broken"], log=proof["log"][-3000:]), has_input=False)

"""C16: equation strings round-trip and parse to the function they denote.
Correspondence (inside Coq, Model/Parse.v): (a) the sympy printer on random stacks with adversarial constants, (b) the tokenizer
on printed, sympy-printed and malformed strings, (c) the whole parser (tokens -> postfix -> command array + constants, or error)
with Python's float() as a recorded oracle.  Oracle on the real objects: print -> parse -> evaluate round trip with and without
simplification; strings printed by sympy against sympy.lambdify."""
import math
import random

import vlib
from props import c01

HEADER = """From Bingo Require Import Gen.OpDefs Gen.Strings Model.Stack Model.Parse.
From Coq Require Import ZArith List Bool.
Import ListNotations.
Open Scope Z_scope.
Fixpoint index_of (t : str) (l : list str) (i : Z) : Z := match l with [] => (-1) | x :: r => if str_eqb t x then i else index_of t r (i + 1) end.
Definition runner (c : Z * list (Z * Z * Z) * list str * str * list str) : list Z :=
  let '(kind, s, consts, text, floats) := c in
  if kind =? 0 then sympy_string str (fun x => x) consts s
  else if kind =? 1 then match tokenize text with None => [(-3)] | Some ts => flat_map (fun t => t ++ [(-1)]) ts end
  else match parse (fun t => existsb (str_eqb t) floats) text with
       | None => [(-3)]
       | Some (rows, cs) => flat_map (fun r => [node_of r; p1_of r; p2_of r]) rows ++ [(-7777)] ++ map (fun t => index_of t floats 0) cs
       end."""
RUNNER = "runner"

CONSTS = [2.5, -3.0, 1e-05, -1e+22, 0.1, 7.0, -0.5, 123456.789, 1e+300, 5e-324, -0.0, 1.0, 100.0, 1e+16, 0.30000000000000004,
          -2.2250738585072014e-308, 1.7976931348623157e+308, 12345678901234567.0, 3.141592653589793, -1e-07]
MALFORMED = ["(X_0", "X_0)", "X_0 + ", "sin X_0", "X_0-3", "--X_0", "E", "pi", "zoo", "2*I", "oo", "nan", "", " ", "()", "X_0 X_1",
             "1.2.3", "X_0 ** ** 2", ")(", "(X_0)(X_1)", "- 2", "-  X_0", "3 - -2", "2^-X_0", "-2^X_0", "-2.5e3^X_0", "1e-5^2", "(-2)^X_0",
             "X_0-2^X_1", "-2 ^X_0", "-2.^X_0", "-2e^X_0", "-2e+^X_0", "a_0", "X_", "C_1 + 2.5", "c_0 + 2.5 + C_0", "x_0 + X_0", "007 + X_1",
             "sin(cos(X_0)) ^ 2 ^ 3", "1/2/3", "2-3-4", "2 - 3 - 4", "2 ^ 3 ^ 2", "SIN(X_0)", "Abs(X_0)", "sqrt(X_0)*-1", "X_0\t+ 1",
             "exp(-X_0)", "-(X_0)", "-sin(X_0)", "2.5 .5", "+", "^", "sin", "sin()", "1e5", "1E5", "-1E-5 + X_0", "inf", "-inf", "X_0 + inf"]


def codes(s):
    return "(@nil Z)" if not s else "[" + "; ".join(str(ord(ch)) for ch in s) + "]"


def coq_strs(l):
    return "(@nil str)" if not l else "[" + "; ".join(codes(s) if s else "(@nil Z)" for s in l) + "]"


def coq_stack(s):
    return "(@nil (Z * Z * Z))" if not s else vlib.clist(s, lambda r: "(%s, %s, %s)" % (vlib.cz(r[0]), vlib.cz(r[1]), vlib.cz(r[2])))


def coq_case(c):
    return "(%d, %s, %s, %s, %s)" % (c["kind"], coq_stack(c.get("stack", [])), coq_strs(c.get("consts", [])), codes(c.get("text", "")),
                                      coq_strs(c.get("floats", [])))


def gen_print_case(rng):
    L = rng.randint(0, 4)
    s = c01.gen_stack(rng, rng.randint(1, 12), 3, max(L, 1), list(range(2, 16)), int_values=(0, 1, 2, 3, -1, -2, 5, 10, 123, -45))
    cs = [rng.choice(CONSTS) for _ in range(L)]
    if rng.random() < 0.1:            # unset / out-of-range constants print as "?"
        for r in s:
            if r[0] == 1 and rng.random() < 0.5:
                r[1] = r[2] = rng.choice([-1, L, L + 2])
    return dict(stack=s, cvals=cs)


def mutate_string(rng, s):
    if not s:
        return s
    k = rng.random()
    i = rng.randrange(len(s))
    if k < 0.3:
        return s[:i] + s[i + 1:]
    if k < 0.6:
        return s[:i] + rng.choice("()*-^ +/.e") + s[i:]
    if k < 0.8:
        return s.replace(" ", "", 1)
    return s[:i] + rng.choice(["**", ")(", "-", " - ", "-1"]) + s[i:]


# ---- random infix strings in the syntax bingo documents (operators, functions, X_k, numbers), with minimal parentheses and many
# repeated sub-expressions in both operand orders; each comes with an independent evaluator
PREC = {"+": 0, "-": 0, "*": 1, "/": 1, "^": 2}
FUNS = ["sin", "cos", "exp", "log", "abs", "sqrt", "sinh", "cosh"]


def gen_tree(rng, depth, pool):
    if depth == 0 or rng.random() < 0.3:
        if pool and rng.random() < 0.5:
            return rng.choice(pool)
        return rng.choice([("x", 0), ("x", 1), ("n", "2"), ("n", "3"), ("n", "0.5"), ("n", "2.5"), ("neg", ("x", 0)), ("n", "-1.5")])
    if rng.random() < 0.2:
        t = ("f", rng.choice(FUNS), gen_tree(rng, depth - 1, pool))
    else:
        a, b = gen_tree(rng, depth - 1, pool), gen_tree(rng, depth - 1, pool)
        op = rng.choice("+-*/^-/")
        t = ("b", op, a, b)
        if rng.random() < 0.5:
            pool.append(("b", op, b, a))      # the same operator with swapped operands
    pool.append(t)
    return t


def show_tree(t, rng):
    k = t[0]
    if k == "x":
        return "X_%d" % t[1]
    if k == "n":
        return t[1] if not t[1].startswith("-") else "(%s)" % t[1]
    if k == "neg":
        return "(-%s)" % show_tree(t[1], rng)
    if k == "f":
        return "%s(%s)" % (t[1], show_tree(t[2], rng))
    op, a, b = t[1], t[2], t[3]

    def side(c, right):
        s = show_tree(c, rng)
        if c[0] != "b":
            return s
        pc, po = PREC[c[1]], PREC[op]
        need = pc < po or (pc == po and (right if op != "^" else not right))
        return "(%s)" % s if need or rng.random() < 0.15 else s
    sp = " " if op in "+-" or rng.random() < 0.5 else ""
    return "%s%s%s%s%s" % (side(a, False), sp, "**" if op == "^" and rng.random() < 0.5 else op, sp, side(b, True))


def eval_tree(t, x, ok=None):
    """value of the tree; [ok] (a one-element list holding a mask) collects the points where every intermediate value is finite"""
    import numpy as np
    v = _eval_tree(t, x, ok)
    if ok is not None:
        ok[0] = ok[0] & np.isfinite(v)
    return v


def _eval_tree(t, x, ok):
    import numpy as np
    k = t[0]
    if k == "x":
        return x[:, t[1]].copy()
    if k == "n":
        return np.full(x.shape[0], float(t[1]))
    if k == "neg":
        return -eval_tree(t[1], x, ok)
    if k == "f":
        a = eval_tree(t[2], x, ok)
        return {"sin": np.sin, "cos": np.cos, "exp": np.exp, "log": lambda v: np.log(np.abs(v)), "abs": np.abs,
                "sqrt": lambda v: np.sqrt(np.abs(v)), "sinh": np.sinh, "cosh": np.cosh}[t[1]](a)
    a, b = eval_tree(t[2], x, ok), eval_tree(t[3], x, ok)
    return {"+": lambda: a + b, "-": lambda: a - b, "*": lambda: a * b, "/": lambda: a / b, "^": lambda: np.power(a, b)}[t[1]]()


def impl_main(payload):
    import signal
    import warnings
    import numpy as np
    import sympy as sp
    from bingo.symbolic_regression.agraph.agraph import AGraph
    from bingo.symbolic_regression.agraph import string_parsing as spm
    from bingo.symbolic_regression.agraph.string_generation import get_formatted_string
    from bingo.symbolic_regression.agraph.simplification_backend import simplification_backend as sb
    warnings.simplefilter("ignore")
    np.seterr(all="ignore")
    rng = random.Random(payload["seed"])
    X = np.array([[0.5, 1.5, -0.7], [2.0, -0.75, 1.1], [-1.25, 0.25, 0.4], [3.0, 2.0, -2.0]])

    accepted = []

    def rec_float(tok):
        v = float(tok)
        accepted.append(tok)
        return v

    spm.float = rec_float
    cases, exp, viol = [], [], []
    strings = []
    stats = dict(printed=0, tokenized=0, parsed=0, parse_errors=0, roundtrips=0, roundtrip_exact=0, f3_hits=0, sympy_ok=0, sympy_rejected=0,
                 sympy_skipped=0)
    f3_seen = []
    # ---- (a) printer + (d) round trip
    for pc in payload["print_cases"]:
        st = np.array(pc["stack"], dtype=int)
        cs = tuple(pc["cvals"])
        text = get_formatted_string("sympy", st, cs)
        cases.append(dict(kind=0, stack=pc["stack"], consts=[str(v) for v in cs]))
        exp.append([ord(ch) for ch in text])
        stats["printed"] += 1
        strings.append(text)
        if "?" in text:
            continue
        g = AGraph()
        g.command_array = st.copy()
        n = g.get_number_local_optimization_params()
        # the AGraph renumbers constants in stack order: use its own string so that constants and stack agree
        g.set_local_optimization_params([rng.choice(CONSTS) for _ in range(n)])
        if n > 0:
            # the string printed AFTER a refit shows the constants the equation holds now, whatever was printed before
            for fmt in ("sympy", "console"):
                g.get_formatted_string(fmt)
            newc = [rng.choice(CONSTS) for _ in range(n)]
            g.set_local_optimization_params(newc)
            for fmt in ("sympy", "console"):
                if g.get_formatted_string(fmt) != get_formatted_string(fmt, g._simplified_command_array, tuple(newc)):
                    viol.append("an equation printed %r, was given the constants %r and prints %r again; a fresh print gives %r"
                                % (fmt, newc, g.get_formatted_string(fmt), get_formatted_string(fmt, g._simplified_command_array, tuple(newc))))
                    break
        s2 = g.get_formatted_string("sympy")
        strings.append(s2)
        ref = g.evaluate_equation_at(X)
        # points at which the value is well conditioned: an independent evaluation in double and in extended precision agree.
        # Printing drops parentheses that are redundant over the reals (a + (b - c) is printed a + b - (c)), so the parsed
        # equation may associate differently; where rounding decides the value (1e16 + x - 1e16) no comparison is meaningful
        def conditioned(stack_, consts_):
            red = sb.reduce_stack(np.asarray(stack_, dtype=int))
            k, rows = 0, []
            for r_ in np.asarray(red).tolist():
                if r_[0] == 1:
                    rows.append([1, k, k])
                    k += 1
                else:
                    rows.append([int(v) for v in r_])
            cvals = [float(v) for v in np.atleast_1d(consts_)]
            w = np.zeros(X.shape[0], dtype=bool)
            for j in range(X.shape[0]):
                try:
                    with np.errstate(all="ignore"):
                        v64 = float(c01.ref_eval(rows, X[j], cvals))
                        v80 = c01.ref_eval(rows, X[j], cvals, dtype=np.longdouble)
                    # relative agreement: tiny values (products with constants like 1e-17) are as well conditioned as any other
                    w[j] = bool(np.isfinite(v64) and np.isfinite(v80) and abs(np.longdouble(v64) - v80) <= 1e-11 * abs(v80))
                except Exception:  # noqa
                    w[j] = False
            return w
        well = conditioned(st, g.constants)
        try:     # ... and the same for the association the parser gives the string
            hp = AGraph(equation=s2, use_simplification=False)
            well &= conditioned(hp.command_array, hp.constants)
        except Exception:  # noqa
            pass
        stats["ill_conditioned_points"] = stats.get("ill_conditioned_points", 0) + int((~well).sum())
        for simp in (False, True):
            try:
                h = AGraph(equation=s2, use_simplification=simp)
                got = h.evaluate_equation_at(X)
            except Exception as e:  # noqa
                viol.append("AGraph(equation=%r, use_simplification=%r) raised %r; the string was printed by an equation" % (s2, simp, e))
                continue
            stats["roundtrips"] += 1
            refv, gotv = np.asarray(ref, dtype=float).ravel(), np.asarray(got, dtype=float).ravel()
            if np.array_equal(refv, gotv, equal_nan=True):
                stats["roundtrip_exact"] += 1
                continue
            # compared where the reference is finite and well conditioned (simplification may in addition define points where
            # the original is undefined: C03); real-number equality, so a tolerance
            sel = np.isfinite(refv) & well
            if gotv.shape == refv.shape and np.allclose(refv[sel], gotv[sel], rtol=1e-8, atol=0.0, equal_nan=True):
                continue
            del accepted[:]
            literals = len(spm.eq_string_to_command_array_and_constants(s2)[1])
            if simp and literals > 0:
                stats["f3_hits"] += 1          # known finding F3: literals re-bound by position after simplification
                if len(f3_seen) < 3:
                    f3_seen.append(s2)
            else:
                viol.append("printing %r and parsing it back (use_simplification=%r) gives %r instead of %r at x=%r"
                            % (s2, simp, gotv.tolist(), refv.tolist(), X.tolist()))
    # F3 replay
    f3 = False
    try:
        h = AGraph(equation="(2.0)*((3.0)*(X_0))", use_simplification=True)
        f3 = not np.allclose(h.evaluate_equation_at(np.array([[1.0]])), [[6.0]])
    except Exception:  # noqa
        f3 = False
    # ---- (e) strings sympy prints
    class TO(Exception):
        pass

    def on_alarm(*_):
        raise TO()

    signal.signal(signal.SIGALRM, on_alarm)
    X0, X1 = sp.symbols("X_0 X_1")

    def rnd(depth):
        if depth == 0 or rng.random() < 0.25:
            k = rng.random()
            if k < 0.4:
                return rng.choice([X0, X1])
            if k < 0.6:
                return sp.Integer(rng.choice([1, 2, 3, -1, -2, 5]))
            if k < 0.8:
                return sp.Float(rng.choice([2.5, -3.0, 0.1, -0.5, 1e-5, 123.456]))
            return sp.Rational(rng.choice([1, -1, 2, 3]), rng.choice([2, 3, 7]))
        op = rng.choice(["+", "-", "*", "/", "**", "**", "sin", "cos", "sinh", "cosh", "exp", "log", "sqrt", "Abs", "neg", "neg"])
        a = rnd(depth - 1)
        if op in ("+", "-", "*", "/", "**"):
            b = rnd(depth - 1)
            return {"+": lambda: a + b, "-": lambda: a - b, "*": lambda: a * b, "/": lambda: a / b, "**": lambda: a ** b}[op]()
        if op == "neg":
            return -a
        return {"sin": sp.sin, "cos": sp.cos, "sinh": sp.sinh, "cosh": sp.cosh, "exp": sp.exp, "log": sp.log, "sqrt": sp.sqrt,
                "Abs": sp.Abs}[op](a)

    pts = np.array([[0.5, 1.5], [2.0, 0.75], [1.25, 0.25], [3.0, 2.0]])
    scripted = [-(sp.Integer(2) ** X0), -(sp.Float(2.5) ** X0), X0 - 2 ** X1, -X0 ** 2, sp.Rational(-1, 2) ** X0, X1 * -(3 ** X0),
                sp.exp(-2 ** X0), sp.Integer(-2) ** X0, 2 ** (-(2 ** X0)), X0 ** -2.5, -(sp.Float(1e-5) ** X1),
                # scientific-notation literals (a minus inside the literal) as power bases, factors, addends and exponents
                sp.Float(2e-5) ** X0, sp.Float(3.5e-7) ** (X0 + X1) * X1, X0 - sp.Float(1e-5) ** X1, sp.Float(2e20) ** X0,
                X0 * sp.Float(1e-7) + X1, X0 ** sp.Float(1e-5), sp.sin(sp.Float(4e-6) ** X1) / X0, X1 / sp.Float(2e-5) ** X0,
                # integer literals at and beyond the range of the int64 command array: the largest that fits, and ones that must be
                # rejected (or, if accepted, must keep their value - never wrap around)
                X0 + sp.Integer(2 ** 63 - 1), sp.Integer(2 ** 63) * X0, X0 / sp.Integer(2 ** 64 - 1), X1 - sp.Integer(2 ** 63 + 12345),
                sp.Integer(2 ** 64) * X0 + X1, X0 * sp.Integer(3 * 2 ** 62)]
    for t in range(payload["sympy_cases"] + len(scripted)):
        signal.alarm(2)
        try:
            e = scripted[t] if t < len(scripted) else rnd(rng.randint(1, 3))
            s = str(e)
            f = sp.lambdify([X0, X1], e, "math")
            ref = []
            for p in pts:
                try:
                    v = complex(f(*p))
                    if abs(v.imag) < 1e-300 and math.isfinite(v.real):
                        # a complex value whose parts underflowed looks real in double precision: ask for 20 digits with
                        # unbounded exponents before believing that the value is real
                        hv = sp.N(e.subs({X0: float(p[0]), X1: float(p[1])}), 20)
                        # ... and the value must be well conditioned: sin(1e10**(2.5/X_1)) changes completely with the last
                        # bit of its argument, so two correct evaluations may differ arbitrarily
                        try:
                            w = complex(f(*(p * (1 + 1e-12))))
                            stable = abs(w - v) <= 1e-7 * (1 + abs(v))
                        except Exception:  # noqa
                            stable = False
                        ref.append(v.real if (hv.is_real and stable) else None)
                    else:
                        ref.append(None)
                except TO:
                    raise
                except Exception:  # noqa
                    ref.append(None)
        except TO:
            stats["sympy_skipped"] += 1
            continue
        except Exception:  # noqa
            signal.alarm(0)
            stats["sympy_skipped"] += 1
            continue
        signal.alarm(0)
        strings.append(s)
        try:
            g = AGraph(equation=s)
            out = g.evaluate_equation_at(pts).ravel()
        except Exception:  # noqa   rejected with an error: allowed
            stats["sympy_rejected"] += 1
            continue
        bad = [(p.tolist(), r, float(o)) for p, r, o in zip(pts, ref, out) if r is not None and not abs(o - r) <= 1e-9 * max(1.0, abs(r))]
        if bad:
            viol.append("AGraph(equation=%r) (the string sympy prints) evaluates to %r at %r, sympy gives %r" % (s, bad[0][2], bad[0][0], bad[0][1]))
        else:
            stats["sympy_ok"] += 1
    # ---- (f) infix strings with repeated sub-expressions in both operand orders, against an independent evaluator
    XE = np.array([[0.5, 1.5], [2.0, 0.75], [1.25, 0.25], [3.0, 2.0], [0.3, 2.2]])
    for _ in range(payload["infix_cases"]):
        tr = gen_tree(rng, rng.randint(1, 4), [])
        s = show_tree(tr, rng)
        strings.append(s)
        try:
            g = AGraph(equation=s)
            out = np.asarray(g.evaluate_equation_at(XE), dtype=float).ravel()
        except Exception as e:  # noqa
            viol.append("AGraph(equation=%r) raised %r for a well-formed expression" % (s, e))
            continue
        okm = [np.ones(XE.shape[0], dtype=bool)]
        ref = np.asarray(eval_tree(tr, XE, okm), dtype=float).ravel()
        sel = okm[0]          # points where every intermediate value is finite (elsewhere evaluation semantics, not parsing, decide)
        stats["infix"] = stats.get("infix", 0) + 1
        if not np.allclose(ref[sel], out[sel], rtol=1e-9, atol=0.0):
            viol.append("AGraph(equation=%r) evaluates to %r at %r; the expression is %r" % (s, out[sel].tolist(), XE[sel].tolist(), ref[sel].tolist()))
    # ---- (b) tokenizer and (c) parser on all strings collected + mutated + malformed
    pool = list(dict.fromkeys(strings))
    extra = [mutate_string(rng, rng.choice(pool)) for _ in range(payload["mutated"])]
    for s in pool + extra + payload["malformed"]:
        if any(ord(ch) > 126 or (ord(ch) < 32 and ch != "\t") for ch in s):
            continue
        try:
            toks = spm.eq_string_to_infix_tokens(s)
            enc = [c for t in toks for c in [ord(ch) for ch in t] + [-1]]
        except Exception:  # noqa
            enc = [-3]
        cases.append(dict(kind=1, text=s))
        exp.append(enc)
        stats["tokenized"] += 1
        del accepted[:]
        try:
            arr, consts = spm.eq_string_to_command_array_and_constants(s)
            table = list(dict.fromkeys(accepted))
            if [float(t) for t in accepted] != list(consts) and not (len(accepted) == len(consts) and all(
                    (math.isnan(a) and math.isnan(b)) or a == b for a, b in zip([float(t) for t in accepted], consts))):
                viol.append("parsing %r: constants %r are not the accepted literals %r in order" % (s, consts, accepted))
            enc = [int(v) for r in np.asarray(arr).reshape(-1, 3).tolist() for v in r] + [-7777] + [table.index(t) for t in accepted]
            stats["parsed"] += 1
        except Exception:  # noqa
            # float() may have accepted some tokens before the failure: they are part of the oracle too
            table = list(dict.fromkeys(accepted))
            enc = [-3]
            stats["parse_errors"] += 1
        # tokens float() rejected must be known as rejected: the model treats everything outside the table as not a float
        cases.append(dict(kind=2, text=s, floats=table))
        exp.append(enc)
    spm.float = float
    # ---- (f) the sympy-compatible model string of the SRBench interface: with the data frame's column names substituted it must
    # denote the function the equation computes, for any number of features (X_1 is a prefix of X_10 ... X_19)
    try:
        from bingo.symbolic_regression import srbench_interface as srb
        from bingo.symbolic_regression.equation_regressor import EquationRegressor
        stats["srbench_models"] = 0
        rs2 = np.random.RandomState(payload["seed"] % (2 ** 31))

        class Frame:
            def __init__(self, columns):
                self.columns = columns
        for eq_text, ncol in (("2.5*X_0*X_0 - sin(X_1)/X_2", 3), ("2.5*X_10*X_10 - sin(X_1)/X_11 + 0.5*X_3", 12),
                              ("X_1*X_12 + X_2*X_21 - X_20/X_0 + X_22", 23), ("X_10 + X_11*X_1 - X_19*X_9", 20)):
            for names in (["col%s" % chr(97 + i) for i in range(ncol)],
                          ["len", "len0", "len1", "len2"] + ["v%sq" % chr(97 + i) for i in range(ncol - 4)] if ncol >= 4 else ["u", "v", "w"]):
                data = rs2.uniform(0.5, 2.0, size=(7, ncol))
                est = EquationRegressor(AGraph(equation=eq_text))
                want = np.asarray(est.predict(data), dtype=float).ravel()
                text = srb.model(est, Frame(list(names)))
                syms = {c: sp.Symbol(c) for c in names}
                stats["srbench_models"] += 1
                try:
                    expr = sp.sympify(text, locals=syms)
                except Exception as e:  # noqa
                    viol.append("srbench model string %r of %r does not parse as sympy: %r" % (text, eq_text, e))
                    continue
                strangers = sorted(str(v) for v in expr.free_symbols if str(v) not in names)
                if strangers:
                    viol.append("srbench model string %r of %r (columns %r) names %r, which are not columns" % (text, eq_text, names, strangers))
                    continue
                f = sp.lambdify([syms[c] for c in names], expr, "numpy")
                got = np.broadcast_to(np.asarray(f(*data.T), dtype=float), want.shape)
                if not np.allclose(got, want, rtol=1e-10, atol=0.0):
                    viol.append("srbench model string %r (columns %r) does not compute %r: %r vs %r" % (text, names, eq_text, got.tolist(), want.tolist()))
    except ImportError:
        pass
    return dict(cases=cases, exp=exp, viol=viol, stats=stats, f3=bool(f3), f3_seen=f3_seen)


def check(rep, proof):
    rng = random.Random(rep.seed)
    quick = rep.tier == "quick"
    payload = dict(seed=rep.seed, print_cases=[gen_print_case(rng) for _ in range(500 if quick else 12000)],
                   sympy_cases=300 if quick else 6000, mutated=400 if quick else 10000, malformed=MALFORMED,
                   infix_cases=600 if quick else 15000)
    rc, res, out, wall = vlib.run_impl("c16", payload, timeout=3400)
    if res is None:
        rep.violation("implementation harness crashed", dict(relation="corr_C16_strings", log=out[-3000:]), has_input=False)
        return
    cases, exp, stats = res["cases"], res["exp"], res["stats"]
    pairs = [(coq_case(c), e) for c, e in zip(cases, exp)]
    bad, log = vlib.coq_compare("c16", HEADER, RUNNER, pairs, shard=250)
    rep.coverage.update(
        evaluations=len(cases) + stats["roundtrips"] + stats["sympy_ok"] + stats["sympy_rejected"],
        distinct_nontrivial=len({c.get("text", repr(c.get("stack"))) for c in cases}),
        rule="printer: random well-formed stacks over all 17 node kinds with 20 adversarial constants (tiny, huge, negative, -0.0, "
             "17-digit) and unset constants, real get_formatted_string('sympy') vs the model character by character; tokenizer and "
             "full parser (command array, constant order, or error) on the printed strings, strings printed by sympy for random "
             "expression trees, character-level mutations of both and a malformed list, float() recorded as an oracle; oracle: "
             "print -> AGraph(equation=...) -> evaluate with and without simplification, AGraph(equation=str(sympy_expr)) vs lambdify",
        samples=[cases[0].get("stack"), next((c["text"] for c in cases if c["kind"] == 2), None)],
        correspondence=dict(cases=len(cases), disagreements=len(bad)),
        implementation_stats=stats, oracle_violations=len(res["viol"]),
    )
    rep.assumptions += [
        "str(float)/float() are oracles (Python's repr round trip); regular expressions and str methods are modelled for ASCII input",
        "re-association of + chains by the printer (a + (b + c) is printed without parentheses) changes float results in the last bit: "
        "the oracle compares with relative tolerance 1e-9, the theorems hold over any algebra where + is associative",
        "tr_strings.py (templates, tables, pinned regex sources and tokenizer statement order) is trusted",
    ]
    for f in vlib.load_findings("C16"):
        if f["id"] == "F3" and (res["f3"] or stats["f3_hits"]):
            rep.known.append("%s %s" % (f["id"], f["what"][:200]))
    if res["viol"]:
        rep.violation(res["viol"][0][:700], dict(oracle=res["viol"][:5], how="tools/props/c16.py impl_main (seed %d)" % rep.seed))
    elif bad:
        first = bad[0]
        j = None if isinstance(first, tuple) else first
        mo = None if j is None else vlib.coq_eval_one(HEADER, "%s %s" % (RUNNER, pairs[j][0]))
        rep.violation("model and implementation disagree; property oracle found no failing input",
                      dict(relation="corr_C16_strings (Model/Parse.v vs string_generation/string_parsing)", case=None if j is None else cases[j],
                           implementation=None if j is None else exp[j][:200], model=None if mo is None else mo[:200],
                           disagreements=len(bad), log=log[-1500:]), has_input=False)
    if not proof["ok"] and not rep.violations:
        rep.violation("proof obligation no longer checks: %s" % proof["broken"],
                      dict(theorem=proof["broken"], log=proof["log"][-3000:]), has_input=False)

"""C05: a stored fitness is never stale.  Phase-trace correspondence with Model/Pipeline.v on real generational steps
(value chromosomes) + a read monitor and boundary oracle on real islands of both chromosome families."""
import math
import random

import vlib

HEADER = """From Bingo Require Import Model.Pipeline Model.ArchPipeline.
From Coq Require Import ZArith List Bool.
Import ListNotations.
(* genomes are integer codes; the fitness table maps code -> fitness code *)
Definition enc_pop (l : list (ind Z Z)) : list Z :=
  flat_map (fun i => [genome Z Z i; (match stored Z Z i with None => -1 | Some v => v end)%Z;
                      (if flag Z Z i then 1 else 0)%Z]) l.
Definition runner (c : nat * list Z * list (Z * option Z * bool) * list (nat * list nat * Z) * list nat) : list Z :=
  let '(a, tbl, p, sp, chosen) := c in
  let fit := fun g : Z => nth (Z.to_nat g) tbl 0%Z in
  let pop := map (fun t => let '(g, s, f) := t in mkInd Z Z g s f) p in
  let specs := map (fun t => let '(k, ps, g) := t in
                       match k with 0%nat => OCopy Z (hd 0%nat ps) | 1%nat => ONew Z ps g | _ => OGen Z g end) sp in
  let ea := match a with 0%nat => BaseEA | 1%nat => MuPlusLambda | 2%nat => MuCommaLambda | 3%nat => AgeFitnessEA | _ => CrowdingEA end in
  match generational_step Z Z fit (fun g => g) Z.eqb 0%Z ea pop specs chosen with
  | Ok next => 0%Z :: enc_pop next
  | MissingRead => [1%Z] | StaleRead => [2%Z] | BadOracle => [3%Z]
  end.
(* one island-level operation other than a generational step, from the real state before it *)
Definition runner2 (c : nat * list Z * list (Z * option Z * bool) * nat * (nat * list Z * list nat * list (Z * option Z * bool))) : list Z :=
  let '(a, tbl, p, age, (k, gs, keep, inc)) := c in
  let fit := fun g : Z => nth (Z.to_nat g) tbl 0%Z in
  let mk := map (fun t : Z * option Z * bool => let '(g, s, f) := t in mkInd Z Z g s f) in
  let ea := match a with 0%nat => BaseEA | 1%nat => MuPlusLambda | 2%nat => MuCommaLambda | 3%nat => AgeFitnessEA | _ => CrowdingEA end in
  let op := match k with 0%nat => IReset Z Z | 1%nat => IBest Z Z | 2%nat => IRegen Z Z gs | _ => IMigrate Z Z keep (mk inc) end in
  match island_op Z Z fit (fun g => g) Z.eqb 0%Z ea (mk p, age) op with
  | Ok (next, age') => 0%Z :: Z.of_nat age' :: enc_pop next
  | MissingRead => [1%Z] | StaleRead => [2%Z] | BadOracle => [3%Z]
  end.
(* a migration between two islands of an archipelago, from the real states of both before it *)
Definition runner3 (c : nat * list Z * (list (Z * option Z * bool) * nat) * (list (Z * option Z * bool) * nat) *
                        (list nat * list nat * list nat * list nat)) : list Z :=
  let '(a, tbl, (p1, a1), (p2, a2), (keep1, leave1, keep2, leave2)) := c in
  let fit := fun g : Z => nth (Z.to_nat g) tbl 0%Z in
  let mk := map (fun t : Z * option Z * bool => let '(g, s, f) := t in mkInd Z Z g s f) in
  let ea := match a with 0%nat => BaseEA | 1%nat => MuPlusLambda | 2%nat => MuCommaLambda | 3%nat => AgeFitnessEA | _ => CrowdingEA end in
  match arch_run Z Z fit (fun g => g) Z.eqb 0%Z ea [(mk p1, a1); (mk p2, a2)] [AExchange Z Z 0 1 keep1 leave1 keep2 leave2] with
  | Ok [(q1, b1); (q2, b2)] => (0%Z :: Z.of_nat b1 :: enc_pop q1) ++ ((-5)%Z :: Z.of_nat b2 :: enc_pop q2)
  | Ok _ => [4%Z]
  | MissingRead => [1%Z] | StaleRead => [2%Z] | BadOracle => [3%Z]
  end."""
RUNNER = "runner"
RUNNER2 = "runner2"
RUNNER3 = "runner3"
EAS = ["base", "mu+lambda", "mu,lambda", "agefitness", "crowding"]


def coq_case(c):
    nat = lambda x: "%d%%nat" % x  # noqa
    return "(%s, %s, %s, %s, %s)" % (
        nat(c["ea"]), vlib.clist(c["table"]),
        vlib.clist(c["pop"], lambda t: "(%s, %s, %s)" % (vlib.cz(t[0]), vlib.copt(t[1]), vlib.cbool(t[2]))),
        vlib.clist(c["specs"], lambda t: "(%s, %s, %s)" % (nat(t[0]), vlib.clist(t[1], nat), vlib.cz(t[2]))),
        vlib.clist(c["chosen"], nat))


def coq_case3(c):
    nat = lambda x: "%d%%nat" % x  # noqa
    trip = lambda t: "(%s, %s, %s)" % (vlib.cz(t[0]), vlib.copt(t[1]), vlib.cbool(t[2]))  # noqa
    return "(%s, %s, (%s, %s), (%s, %s), (%s, %s, %s, %s))" % (
        nat(c["ea"]), vlib.clist(c["table"]), vlib.clist(c["p1"], trip), nat(c["a1"]), vlib.clist(c["p2"], trip), nat(c["a2"]),
        vlib.clist(c["keep1"], nat), vlib.clist(c["leave1"], nat), vlib.clist(c["keep2"], nat), vlib.clist(c["leave2"], nat))


def coq_case2(c):
    nat = lambda x: "%d%%nat" % x  # noqa
    trip = lambda t: "(%s, %s, %s)" % (vlib.cz(t[0]), vlib.copt(t[1]), vlib.cbool(t[2]))  # noqa
    return "(%s, %s, %s, %s, (%s, %s, %s, %s))" % (
        nat(c["ea"]), vlib.clist(c["table"]), vlib.clist(c["pop"], trip), nat(c["age"]),
        nat(c["op"]), vlib.clist(c["gs"]), vlib.clist(c["keep"], nat), vlib.clist(c["inc"], trip))


# ------------------------------------------------------------------ implementation side
class Monitor:
    """class-level instrumentation installed inside the harness process only"""

    def __init__(self):
        self.phase = None
        self.bad_reads = []
        self.truth = None          # function individual -> true fitness
        self.records = []          # per generational step: dict(...)
        self.cur = None

    def install(self):
        import numpy as np
        from bingo.chromosomes.chromosome import Chromosome
        from bingo.evolutionary_algorithms.ea_diagnostics import EaDiagnostics
        from bingo.stats.hall_of_fame import HallOfFame
        from bingo.selection.age_fitness import AgeFitness
        from bingo.selection.tournament import Tournament
        from bingo.selection.deterministic_crowding import DeterministicCrowding
        from bingo.selection.generalized_crowding import GeneralizedCrowding
        from bingo.evolutionary_optimizers.island import Island
        mon = self

        def same(a, b):
            return a == b or (isinstance(a, float) and isinstance(b, float) and math.isnan(a) and math.isnan(b))
        self.same = same

        def getter(ind):
            if mon.phase is not None and mon.truth is not None:
                if ind._fitness is None:
                    # testing a parent's fitness for None (fix F4) is not "acting on" it; a real use of None raises
                    if mon.phase != "diagnostics":
                        mon.bad_reads.append("%s read a missing fitness" % mon.phase)
                else:
                    t = mon.truth(ind)
                    if not same(float(ind._fitness), float(t)):
                        mon.bad_reads.append("%s read fitness %r of an individual whose genome has fitness %r"
                                             % (mon.phase, ind._fitness, t))
            return ind._fitness

        def setter(ind, v):
            ind._fitness = v
            ind._fit_set = True
        Chromosome.fitness = property(getter, setter)

        def phased(cls, name, label, pre=None, post=None):
            orig = getattr(cls, name)

            def wrapped(self_, *a, **k):
                old = mon.phase
                mon.phase = label
                try:
                    if pre:
                        pre(self_, *a, **k)
                    r = orig(self_, *a, **k)
                    if post:
                        post(self_, r, *a, **k)
                    return r
                finally:
                    mon.phase = old
            setattr(cls, name, wrapped)

        def sel_pre(self_, population, target):
            for j, p in enumerate(population):
                p._cand_idx = j
            if mon.cur is not None:
                mon.cur["cands"] = [mon.snap(p) for p in population]

        def sel_post(self_, result, population, target):
            if mon.cur is not None:
                mon.cur["chosen"] = [getattr(p, "_cand_idx", -1) for p in result]
                mon.cur["selected"] = [mon.snap(p) for p in result]
        for cls in (AgeFitness, Tournament, GeneralizedCrowding):
            phased(cls, "__call__", "selection", sel_pre, sel_post)
        phased(EaDiagnostics, "update", "diagnostics")
        phased(HallOfFame, "update", "hall of fame update")
        orig_best = Island.get_best_individual

        def best(self_):
            old = mon.phase
            mon.phase = "get_best_individual"
            try:
                return orig_best(self_)
            finally:
                mon.phase = old
        Island.get_best_individual = best

    def snap(self, p):
        return (self.code(p), p._fitness, bool(p._fit_set))


def toy_island(ea_kind, seed, mon):
    import numpy as np
    from bingo.chromosomes.multiple_values import SinglePointCrossover, SinglePointMutation, MultipleValueChromosomeGenerator
    from bingo.evaluation.evaluation import Evaluation
    from bingo.evolutionary_algorithms.evolutionary_algorithm import EvolutionaryAlgorithm
    from bingo.evolutionary_algorithms.mu_plus_lambda import MuPlusLambda
    from bingo.evolutionary_algorithms.mu_comma_lambda import MuCommaLambda
    from bingo.evolutionary_algorithms.age_fitness import AgeFitnessEA
    from bingo.evolutionary_algorithms.generalized_crowding import GeneralizedCrowdingEA
    from bingo.evolutionary_optimizers.island import Island
    from bingo.selection.tournament import Tournament
    from bingo.stats.hall_of_fame import HallOfFame
    from bingo.variation.var_and import VarAnd
    from bingo.variation.var_or import VarOr
    from props.c05_fit import DigitFitness, small_int
    np.random.seed(seed)
    random.seed(seed)
    cx, mu = SinglePointCrossover(), SinglePointMutation(small_int)
    ev = Evaluation(DigitFitness())
    n = 6
    if ea_kind == 0:
        ea = EvolutionaryAlgorithm(VarAnd(cx, mu, 0.5, 0.4) if seed % 2 else VarOr(cx, mu, 0.4, 0.4), ev, Tournament(2))
    elif ea_kind == 1:
        ea = MuPlusLambda(ev, Tournament(2), cx, mu, 0.4, 0.4, n)
    elif ea_kind == 2:
        ea = MuCommaLambda(ev, Tournament(2), cx, mu, 0.4, 0.4, 2 * n)
    elif ea_kind == 3:
        ea = AgeFitnessEA(ev, MultipleValueChromosomeGenerator(small_int, 3), cx, mu, 0.5, 0.4, n)
    else:
        ea = GeneralizedCrowdingEA(ev, cx, mu, 0.5, 0.4)
    isl = Island(ea, MultipleValueChromosomeGenerator(small_int, 3), n, hall_of_fame=HallOfFame(3))
    return isl


def impl_main(payload):
    import copy
    import numpy as np
    from bingo.variation.var_and import VarAnd
    from bingo.variation.var_or import VarOr
    from bingo.variation.add_random_individuals import AddRandomIndividuals
    from bingo.chromosomes.multiple_values import SinglePointCrossover, SinglePointMutation
    mon = Monitor()
    mon.install()
    codes = {}

    def code(p):
        key = tuple(p.values)
        if key not in codes:
            codes[key] = len(codes)
        return codes[key]
    mon.code = code
    from props.c05_fit import digit_value
    mon.truth = lambda ind: digit_value(ind.values)
    made_by_op = set()
    ocx, omu = SinglePointCrossover.__call__, SinglePointMutation.__call__

    def cx_call(self_, p1, p2):
        r = ocx(self_, p1, p2)
        made_by_op.update(id(c) for c in r)
        return r

    def mu_call(self_, p):
        r = omu(self_, p)
        made_by_op.add(id(r))
        return r
    SinglePointCrossover.__call__, SinglePointMutation.__call__ = cx_call, mu_call

    results = []
    rng = random.Random(payload["seed"])
    for run in range(payload["runs"]):
        ea_kind = run % 5
        seed = rng.randrange(10 ** 6)
        isl = toy_island(ea_kind, seed, mon)
        ea = isl._ea
        ogs = type(ea).generational_step
        viol = []
        ops = [rng.choice(["step", "step", "step", "reset", "best", "hof", "regen", "migrate", "inject", "resetsome"]) for _ in range(rng.randint(2, 7))]
        if rng.random() < 0.5:
            ops = ["best"] + ops
        def vc_(v):
            return None if v is None else int(v)

        def island_case(kind, before, age, after, gs=(), keep=(), inc=()):
            table = [0] * len(codes)
            for key, cdx in codes.items():
                table[cdx] = int(digit_value(list(key)))
            out = [0, isl.generational_age]
            for (g, s_, f) in after:
                out += [g, -1 if s_ is None else int(s_), 1 if f else 0]
            results.append(dict(kind="iop", case=dict(ea=ea_kind, table=table, pop=[[g, vc_(s_), bool(f)] for (g, s_, f) in before], age=age,
                                                      op=kind, gs=list(gs), keep=list(keep),
                                                      inc=[[g, vc_(s_), bool(f)] for (g, s_, f) in inc]), out=out, viol=[]))
        for op in ops:
            mon.bad_reads = []
            pre_pop = list(isl.population)
            pre = [mon.snap(p) for p in pre_pop]
            pre_age = isl.generational_age
            try:
                if op == "step":
                    pop_before = list(isl.population)
                    before = [mon.snap(p) for p in pop_before]
                    made_by_op.clear()
                    mon.cur = dict()
                    # observe the offspring list through the variation object
                    var = ea.variation
                    ovc = type(var).__call__
                    seen = {}

                    def vcall(self_, population, number_offspring, _o=ovc, _seen=seen):
                        r = _o(self_, population, number_offspring)
                        _seen["offspring"] = list(r)
                        _seen["parents"] = [list(x) for x in self_.offspring_parents]
                        return r
                    type(var).__call__ = vcall
                    try:
                        isl._execute_generational_step()
                    finally:
                        type(var).__call__ = ovc
                    off = seen["offspring"]
                    specs = []
                    for j, c in enumerate(off):
                        ps = seen["parents"][j] if j < len(seen["parents"]) else []
                        if id(c) in made_by_op:
                            specs.append([1, [int(x) for x in ps], code(c)])
                        elif len(ps) == 0:
                            specs.append([2, [], code(c)])
                        else:
                            specs.append([0, [int(ps[0])], 0])
                    nxt = [mon.snap(p) for p in isl.population]
                    if ea_kind == 4:
                        nxt_cmp = mon.cur.get("selected", [])       # the crowding EA shuffles afterwards
                    else:
                        nxt_cmp = nxt
                    def vc(v):
                        return None if v is None else int(v)
                    table = [0] * len(codes)
                    for key, cdx in codes.items():
                        table[cdx] = int(digit_value(list(key)))
                    out = [0]
                    for (g, s_, f) in nxt_cmp:
                        out += [g, -1 if s_ is None else int(s_), 1 if f else 0]
                    results.append(dict(kind="step", case=dict(ea=ea_kind, table=table,
                                                               pop=[[g, vc(s), bool(f)] for (g, s, f) in before],
                                                               specs=specs, chosen=mon.cur.get("chosen", [])),
                                        out=out, viol=[]))
                elif op == "reset":
                    isl.reset_fitness()
                    island_case(0, pre, pre_age, [mon.snap(p) for p in isl.population])
                elif op == "regen":
                    isl.regenerate_population()      # a fresh, unevaluated population whatever the island's age
                    post = [mon.snap(p) for p in isl.population]
                    island_case(2, pre, pre_age, post, gs=[g for (g, _, _) in post])
                elif op == "inject":
                    # a seeded individual / an immigrant put in by hand: unevaluated, everybody else keeps their flags.  Not a step
                    # of the model (its theorems hold from every state satisfying the invariant); what follows is compared from here
                    isl.population[rng.randrange(len(isl.population))] = isl._generator()
                elif op == "resetsome":
                    isl.reset_fitness([p for p in isl.population if rng.random() < 0.5])
                elif op == "best":
                    isl.get_best_individual()
                    island_case(1, pre, pre_age, [mon.snap(p) for p in isl.population])
                elif op == "migrate":
                    # the real migration code of the serial archipelago on this island and a partner of the same kind that is new
                    # (unevaluated members) or one generation old
                    from bingo.evolutionary_optimizers.serial_archipelago import SerialArchipelago
                    st_np, st_py = np.random.get_state(), random.getstate()
                    partner = toy_island(ea_kind, seed + 17, mon)
                    if rng.random() < 0.5:
                        partner.evolve(1)
                    np.random.set_state(st_np)
                    random.setstate(st_py)
                    inc_before = {id(p): mon.snap(p) for p in partner.population}
                    partner_pre_pop = list(partner.population)
                    partner_pre = [mon.snap(p) for p in partner_pre_pop]
                    partner_age = partner.generational_age
                    arch = SerialArchipelago.__new__(SerialArchipelago)
                    arch.islands, arch._num_islands = [isl, partner], 2
                    arch._coordinate_migration_between_islands()
                    pos = {id(p): k for k, p in enumerate(pre_pop)}
                    post_pop = list(isl.population)
                    keep = [pos[id(p)] for p in post_pop if id(p) in pos]
                    inc = [inc_before[id(p)] for p in post_pop if id(p) not in pos and id(p) in inc_before]
                    if len(keep) + len(inc) != len(post_pop):
                        viol.append("after a migration the island holds an individual that came from neither partner")
                    island_case(3, pre, pre_age, [mon.snap(p) for p in post_pop], keep=keep, inc=inc)
                    # both sides of the exchange through the archipelago model: who stayed, who left, in the order they ended up
                    pos2 = {id(p): k for k, p in enumerate(partner_pre_pop)}
                    post2 = list(partner.population)
                    ex = dict(ea=ea_kind, p1=[[g, vc_(s_), bool(f)] for (g, s_, f) in pre], a1=pre_age,
                              p2=[[g, vc_(s_), bool(f)] for (g, s_, f) in partner_pre], a2=partner_age,
                              keep1=keep, leave2=[pos2[id(p)] for p in post_pop if id(p) in pos2],
                              keep2=[pos2[id(p)] for p in post2 if id(p) in pos2], leave1=[pos[id(p)] for p in post2 if id(p) in pos])
                    table = [0] * len(codes)
                    for key, cdx in codes.items():
                        table[cdx] = int(digit_value(list(key)))
                    ex["table"] = table
                    out3 = [0, isl.generational_age]
                    for (g, s_, f) in [mon.snap(p) for p in post_pop]:
                        out3 += [g, -1 if s_ is None else int(s_), 1 if f else 0]
                    out3 += [-5, partner.generational_age]
                    for (g, s_, f) in [mon.snap(p) for p in post2]:
                        out3 += [g, -1 if s_ is None else int(s_), 1 if f else 0]
                    results.append(dict(kind="exchange", case=ex, out=out3, viol=[]))
                else:
                    isl.update_hall_of_fame()
                    island_case(1, pre, pre_age, [mon.snap(p) for p in isl.population])
            except Exception as e:  # noqa
                viol.append("%s raised %r (algorithm %s, seed %d)" % (op, e, EAS[ea_kind], seed))
            viol += ["%s (algorithm %s, seed %d, after %s)" % (b, EAS[ea_kind], seed, op) for b in mon.bad_reads[:2]]
            # boundary oracle
            members = list(isl.population) + ([] if isl.hall_of_fame is None else list(isl.hall_of_fame))
            for p in members:
                if p._fit_set and not mon.same(float(p._fitness), float(mon.truth(p))):
                    viol.append("after %s an individual marked evaluated carries %r, its genome's fitness is %r (algorithm %s, seed %d)"
                                % (op, p._fitness, mon.truth(p), EAS[ea_kind], seed))
                    break
            if viol:
                results.append(dict(kind="oracle", case=dict(ea=ea_kind, seed=seed, ops=ops), out=[], viol=viol))
                break
    SinglePointCrossover.__call__, SinglePointMutation.__call__ = ocx, omu
    agraph = agraph_runs(payload.get("agraph_runs", 0), payload["seed"], mon)
    scaled = scaled_runs(payload.get("scaled_runs", 0), payload["seed"], mon)
    floats = float_runs(payload.get("float_runs", 0), payload["seed"], mon)
    return dict(results=results, agraph=agraph, scaled=scaled, floats=floats)


def agraph_runs(nruns, seed, mon):
    """AGraph + ExplicitRegression + scipy local optimisation: monitor and boundary oracle only"""
    import copy
    import numpy as np
    from bingo.evaluation.evaluation import Evaluation
    from bingo.evolutionary_algorithms.age_fitness import AgeFitnessEA
    from bingo.evolutionary_algorithms.generalized_crowding import GeneralizedCrowdingEA
    from bingo.evolutionary_algorithms.mu_plus_lambda import MuPlusLambda
    from bingo.evolutionary_algorithms.mu_comma_lambda import MuCommaLambda
    from bingo.evolutionary_optimizers.island import Island
    from bingo.evolutionary_optimizers.serial_archipelago import SerialArchipelago
    from bingo.local_optimizers.local_opt_fitness import LocalOptFitnessFunction
    from bingo.local_optimizers.scipy_optimizer import ScipyOptimizer
    from bingo.selection.tournament import Tournament
    from bingo.stats.hall_of_fame import HallOfFame
    from bingo.symbolic_regression import AGraphCrossover, AGraphMutation, ComponentGenerator, AGraphGenerator, \
        ExplicitRegression, ExplicitTrainingData
    from bingo.symbolic_regression.agraph.agraph import AGraph
    x = np.linspace(-2, 2, 20).reshape(-1, 1)
    td = ExplicitTrainingData(x, x ** 2 + 3.5 * x)
    ref = ExplicitRegression(training_data=td)
    cache = {}

    def truth(ind):
        key = (ind.command_array.tobytes(), tuple(float(c) for c in np.atleast_1d(ind.constants)), ind._use_simplification
               if hasattr(ind, "_use_simplification") else None)
        if key not in cache:
            old = mon.phase
            mon.phase = None
            try:
                # a FRESH equation built from the genome and the constants held - not a copy, whose caches could be as stale
                # as the individual's own
                fresh = AGraph(use_simplification=bool(getattr(ind, "_use_simplification", False)))
                fresh.command_array = np.array(ind.command_array, dtype=int)
                held = tuple(float(c) for c in np.atleast_1d(ind.constants))
                if fresh.get_number_local_optimization_params() != len(held):
                    cache[key] = float("-12345.678")        # the constants held do not even fit the genome: never a true fitness
                else:
                    fresh.set_local_optimization_params(held)
                    cache[key] = float(ref(fresh))
            finally:
                mon.phase = old
        return cache[key]
    out = dict(runs=0, viol=[], samples=[])
    mon.cur = None
    rng = random.Random(seed + 1)
    for r in range(nruns):
        s = rng.randrange(10 ** 6)
        np.random.seed(s)
        random.seed(s)
        cg = ComponentGenerator(1)
        for o in ("+", "-", "*"):
            cg.add_operator(o)
        fit = ExplicitRegression(training_data=td)
        lo = LocalOptFitnessFunction(fit, ScipyOptimizer(fit, method="lm"))
        gen = AGraphGenerator(8, cg)
        kind = r % 4
        # every third run evaluates in two worker processes: what comes back must be the evaluated (optimised) individual
        ev = Evaluation(lo, multiprocess=2) if r % 3 == 1 else Evaluation(lo)
        # the two algorithms with the "and" variation (crossover AND mutation may hit the same offspring, and a mutation may
        # turn out to change nothing) get high variation rates
        if kind == 0:
            ea = AgeFitnessEA(ev, gen, AGraphCrossover(), AGraphMutation(cg), 0.5, 0.5, 8)
        elif kind == 1:
            ea = GeneralizedCrowdingEA(ev, AGraphCrossover(), AGraphMutation(cg), 0.5, 0.5)
        elif kind == 2:
            ea = MuPlusLambda(ev, Tournament(2), AGraphCrossover(), AGraphMutation(cg), 0.4, 0.4, 8)
        else:
            ea = MuCommaLambda(ev, Tournament(2), AGraphCrossover(), AGraphMutation(cg), 0.4, 0.4, 16)
        isl = Island(ea, gen, 8, hall_of_fame=HallOfFame(3))
        opt = SerialArchipelago(isl, num_islands=2, hall_of_fame=HallOfFame(3)) if r % 3 == 0 else isl
        mon.truth = truth
        mon.bad_reads = []
        try:
            for g in range(rng.randint(3, 7)):
                opt.evolve(1)
                opt.get_best_individual()
                islands = opt.islands if hasattr(opt, "islands") else [opt]
                members = [p for i in islands for p in i.population]
                members += [h for i in islands + [opt] if i.hall_of_fame is not None for h in i.hall_of_fame]
                for p in members:
                    if p._fit_set and not mon.same(float(p._fitness), truth(p)):
                        out["viol"].append("AGraph run seed %d kind %d generation %d: flagged individual carries %r, true %r"
                                           % (s, kind, g, p._fitness, truth(p)))
                        break
                if mon.bad_reads:
                    out["viol"].append("AGraph run seed %d kind %d generation %d: %s" % (s, kind, g, mon.bad_reads[0]))
                if out["viol"]:
                    break
        except Exception as e:  # noqa
            out["viol"].append("AGraph run seed %d kind %d raised %r" % (s, kind, e))
        out["runs"] += 1
        out["samples"].append(dict(seed=s, kind=kind, archipelago=(r % 3 == 0), worker_processes=(2 if r % 3 == 1 else 0)))
        if out["viol"]:
            break
    return out


def scaled_runs(nruns, seed, mon):
    """MultipleValueChromosome genomes whose genes are close together on a relative scale (around 1e6 in unit steps, around
    1e-9, booleans, huge indices): any "unchanged" test that is not exact equality leaves a changed genome with a stale
    fitness.  Monitor and boundary oracle only; the fitness is an exact, injective function of the genome."""
    import numpy as np
    from bingo.chromosomes.multiple_values import SinglePointCrossover, SinglePointMutation, MultipleValueChromosomeGenerator
    from bingo.evaluation.evaluation import Evaluation
    from bingo.evaluation.fitness_function import FitnessFunction
    from bingo.evolutionary_algorithms.age_fitness import AgeFitnessEA
    from bingo.evolutionary_algorithms.generalized_crowding import GeneralizedCrowdingEA
    from bingo.evolutionary_algorithms.mu_plus_lambda import MuPlusLambda
    from bingo.evolutionary_algorithms.mu_comma_lambda import MuCommaLambda
    from bingo.evolutionary_optimizers.island import Island
    from bingo.selection.tournament import Tournament
    from bingo.stats.hall_of_fame import HallOfFame
    gens = [("around 1e6", lambda: 1.0e6 + float(np.random.randint(0, 4)), lambda v: int(round(float(v) - 1.0e6))),
            ("around 1e-9", lambda: 1.0e-9 * float(np.random.randint(0, 4)), lambda v: int(round(float(v) * 1e9))),
            ("index above 1e5", lambda: 123456 + int(np.random.randint(0, 4)), lambda v: int(v) - 123456),
            ("boolean", lambda: bool(np.random.randint(0, 2)), lambda v: int(bool(v)))]
    dec = [None]

    def spell(values):
        # the base-4 number spelled by the genes: exact and injective
        return float(sum(dec[0](v) * 4 ** i for i, v in enumerate(values)))

    class Spell(FitnessFunction):
        def __call__(self, individual):
            self.eval_count += 1
            return spell(individual.values)
    out = dict(runs=0, viol=[], samples=[])
    mon.cur = None
    mon.truth = lambda ind: spell(ind.values)
    rng = random.Random(seed + 2)
    for r in range(nruns):
        s = rng.randrange(10 ** 6)
        np.random.seed(s)
        random.seed(s)
        label, g, dec[0] = gens[r % 4]
        kind = (r // 4) % 4
        cx, mu = SinglePointCrossover(), SinglePointMutation(g)
        ev = Evaluation(Spell())
        cgen = MultipleValueChromosomeGenerator(g, 3)
        if kind == 0:
            ea = AgeFitnessEA(ev, cgen, cx, mu, 0.3, 0.6, 8)
        elif kind == 1:
            ea = GeneralizedCrowdingEA(ev, cx, mu, 0.3, 0.6)
        elif kind == 2:
            ea = MuPlusLambda(ev, Tournament(2), cx, mu, 0.3, 0.6, 8)
        else:
            ea = MuCommaLambda(ev, Tournament(2), cx, mu, 0.3, 0.6, 16)
        isl = Island(ea, cgen, 8, hall_of_fame=HallOfFame(3))
        mon.bad_reads = []
        try:
            for gno in range(rng.randint(3, 6)):
                isl.evolve(1)
                isl.get_best_individual()
                members = list(isl.population) + list(isl.hall_of_fame)
                for p in members:
                    if p._fit_set and not mon.same(float(p._fitness), spell(p.values)):
                        out["viol"].append("genes %s, algorithm kind %d, seed %d, generation %d: an individual marked evaluated carries %r, "
                                           "the fitness of its genome %r is %r" % (label, kind, s, gno, p._fitness, list(p.values), spell(p.values)))
                        break
                if mon.bad_reads:
                    out["viol"].append("genes %s kind %d seed %d generation %d: %s" % (label, kind, s, gno, mon.bad_reads[0]))
                if out["viol"]:
                    break
        except Exception as e:  # noqa
            out["viol"].append("scaled run (%s) seed %d kind %d raised %r" % (label, s, kind, e))
        out["runs"] += 1
        if len(out["samples"]) < 4:
            out["samples"].append(dict(seed=s, kind=kind, genes=label))
        if out["viol"]:
            break
    return out


def float_runs(nruns, seed, mon):
    """MultipleFloatChromosome islands whose fitness goes through LocalOptFitnessFunction + ScipyOptimizer: local optimisation
    rewrites the optimised genes IN PLACE (set_local_optimization_params writes into the values list), from a random start
    and on a multi-modal objective - so any two individuals that share a genome container (a replica and its parent, say) stop
    agreeing with the fitness stored in the other one.  Monitor and boundary oracle only."""
    import numpy as np
    from bingo.chromosomes.multiple_floats import MultipleFloatChromosomeGenerator
    from bingo.chromosomes.multiple_values import SinglePointCrossover, SinglePointMutation
    from bingo.evaluation.evaluation import Evaluation
    from bingo.evaluation.fitness_function import FitnessFunction
    from bingo.evolutionary_algorithms.age_fitness import AgeFitnessEA
    from bingo.evolutionary_algorithms.evolutionary_algorithm import EvolutionaryAlgorithm
    from bingo.evolutionary_algorithms.mu_plus_lambda import MuPlusLambda
    from bingo.evolutionary_algorithms.mu_comma_lambda import MuCommaLambda
    from bingo.evolutionary_optimizers.island import Island
    from bingo.local_optimizers.local_opt_fitness import LocalOptFitnessFunction
    from bingo.local_optimizers.scipy_optimizer import ScipyOptimizer
    from bingo.selection.tournament import Tournament
    from bingo.stats.hall_of_fame import HallOfFame
    from bingo.variation.var_or import VarOr

    def bumpy(values):
        v = np.asarray(values, dtype=float)
        return float(np.sum(np.sin(5.0 * v) + 0.3 * v * v) + 0.01 * np.sum(v * np.arange(1, len(v) + 1)))

    class Bumpy(FitnessFunction):
        def __call__(self, individual):
            self.eval_count += 1
            return bumpy(individual.values)
    out = dict(runs=0, viol=[], samples=[], replicas_seen=0)
    mon.cur = None
    mon.truth = lambda ind: bumpy(ind.values)
    rng = random.Random(seed + 3)
    for r in range(nruns):
        s = rng.randrange(10 ** 6)
        np.random.seed(s)
        random.seed(s)
        kind = r % 4
        val = lambda: float(np.random.uniform(-2, 2))  # noqa
        cx, mu = SinglePointCrossover(), SinglePointMutation(val)
        base = Bumpy()
        ev = Evaluation(LocalOptFitnessFunction(base, ScipyOptimizer(base, method=["Nelder-Mead", "BFGS"][(r // 4) % 2], param_init_bounds=[-2, 2])))
        cgen = MultipleFloatChromosomeGenerator(val, 4, needs_opt_list=[[1, 3], [0], [0, 1, 2, 3]][r % 3])
        if kind == 0:
            ea = MuPlusLambda(ev, Tournament(2), cx, mu, 0.3, 0.3, 8)
        elif kind == 1:
            ea = MuCommaLambda(ev, Tournament(2), cx, mu, 0.3, 0.3, 16)
        elif kind == 2:
            ea = EvolutionaryAlgorithm(VarOr(cx, mu, 0.3, 0.3), ev, Tournament(2))
        else:
            ea = AgeFitnessEA(ev, cgen, cx, mu, 0.3, 0.4, 8)
        isl = Island(ea, cgen, 8, hall_of_fame=HallOfFame(3))
        mon.bad_reads = []
        try:
            for gno in range(rng.randint(2, 4)):
                isl.evolve(1)
                isl.get_best_individual()
                members = list(isl.population) + list(isl.hall_of_fame)
                for p in members:
                    if p._fit_set and not mon.same(float(p._fitness), bumpy(p.values)):
                        out["viol"].append("MultipleFloatChromosome island with local optimisation, algorithm kind %d, seed %d, generation %d: an "
                                           "individual marked evaluated carries %r, the fitness of its values %r is %r"
                                           % (kind, s, gno, p._fitness, list(p.values), bumpy(p.values)))
                        break
                if mon.bad_reads:
                    out["viol"].append("MultipleFloatChromosome island kind %d seed %d generation %d: %s" % (kind, s, gno, mon.bad_reads[0]))
                if out["viol"]:
                    break
        except Exception as e:  # noqa
            out["viol"].append("MultipleFloatChromosome run seed %d kind %d raised %r" % (s, kind, e))
        out["runs"] += 1
        if len(out["samples"]) < 4:
            out["samples"].append(dict(seed=s, kind=kind))
        if out["viol"]:
            break
    return out


def check(rep, proof):
    runs = 250 if rep.tier == "quick" else 5000
    rc, res, out, wall = vlib.run_impl("c05", dict(runs=runs, seed=rep.seed, agraph_runs=16 if rep.tier == "quick" else 160,
                                                   scaled_runs=48 if rep.tier == "quick" else 800,
                                                   float_runs=16 if rep.tier == "quick" else 240),
                                       timeout=3400)
    if res is None:
        rep.violation("implementation harness crashed", dict(relation="corr_C05_pipeline", log=out[-3000:]), has_input=False)
        return
    results, ag, sc, fr = res["results"], res["agraph"], res["scaled"], res["floats"]
    steps = [r for r in results if r["kind"] == "step"]
    oracle_bad = [r for r in results if r["viol"]]
    pairs = [(coq_case(r["case"]), r["out"]) for r in steps]
    bad, log = vlib.coq_compare("c05", HEADER, RUNNER, pairs)
    iops = [r for r in results if r["kind"] == "iop"]
    pairs2 = [(coq_case2(r["case"]), r["out"]) for r in iops]
    bad2, log2 = vlib.coq_compare("c05i", HEADER, RUNNER2, pairs2)
    exch = [r for r in results if r["kind"] == "exchange"]
    pairs3 = [(coq_case3(r["case"]), r["out"]) for r in exch]
    bad3, log3 = vlib.coq_compare("c05x", HEADER, RUNNER3, pairs3)
    rep.coverage.update(
        evaluations=len(steps) + ag["runs"] + sc["runs"] + fr["runs"],
        distinct_nontrivial=len({repr(r["case"]) for r in steps if len(r["case"]["specs"]) >= 2}),
        rule="real islands (value chromosomes, five algorithms incl. the base EvolutionaryAlgorithm with VarAnd/VarOr) driven through "
             "random sequences of generational steps, fitness resets, population regenerations, best-individual queries and hall-of-fame "
             "updates; every other island-level operation (reset, migration through the real "
             "SerialArchipelago code with a new or one-generation-old partner, regeneration, best / hall-of-fame query) is replayed "
             "through Model/Pipeline.v island_op from the real state before it; every "
             "generational step is replayed through Model/Pipeline.v (how each offspring arose and which candidates selection "
             "returned are observed) and the next generation's (genome, stored fitness, flag) triples compared; a class-level "
             "monitor flags every read of a missing/stale fitness inside selection, diagnostics, best-individual and hall-of-fame "
             "phases; at every boundary each flagged individual's stored fitness is recomputed independently. AGraph + "
             "ExplicitRegression + scipy local optimisation islands/archipelagos (a third of them evaluating in two worker processes): "
             "monitor and boundary oracle only; the same for value "
             "chromosomes whose genes lie close together on a relative scale (around 1e6, around 1e-9, indices above 1e5, booleans)",
        samples=[steps[0]["case"]] + ag["samples"][:2] if steps else ag["samples"][:2],
        correspondence=dict(generational_steps=len(steps), disagreements=len(bad), island_operations=len(iops),
                            island_operation_kinds=dict((nm, sum(1 for r in iops if r["case"]["op"] == k))
                                                        for k, nm in enumerate(["reset_fitness", "best / hall-of-fame update",
                                                                                "regenerate_population", "migration"])),
                            island_disagreements=len(bad2), archipelago_exchanges=len(exch), exchange_disagreements=len(bad3)),
        agraph=dict(runs=ag["runs"], violations=len(ag["viol"])),
        scaled_genes=dict(runs=sc["runs"], violations=len(sc["viol"]), samples=sc["samples"]),
        float_chromosomes_with_local_optimisation=dict(runs=fr["runs"], violations=len(fr["viol"]), samples=fr["samples"]),
        oracle_violations=len(oracle_bad) + len(ag["viol"]) + len(sc["viol"]) + len(fr["viol"]),
        distribution=dict((EAS[k], sum(1 for r in steps if r["case"]["ea"] == k)) for k in range(5)),
    )
    rep.assumptions += [
        "crossover/mutation/generation results are an oracle in the theorem (their own well-formedness is C04); what is modelled is "
        "flags, stored values and reads",
        "the fitness function is deterministic; local optimisation may rewrite constants during evaluation (opt)",
        "parallel archipelago and FitnessPredictorIsland histories are not part of this model (C15 covers the predictor island's reported fitness)",
    ]
    if oracle_bad:
        r = oracle_bad[0]
        rep.violation("; ".join(r["viol"][:3]), dict(case=r["case"], oracle=r["viol"]))
    elif ag["viol"]:
        rep.violation(ag["viol"][0], dict(kind="AGraph island run", detail=ag["viol"][:4]))
    elif fr["viol"]:
        rep.violation(fr["viol"][0], dict(kind="MultipleFloatChromosome island run with in-place local optimisation", detail=fr["viol"][:4],
                                          how="tools/props/c05.py float_runs (seed %d)" % rep.seed))
    elif sc["viol"]:
        rep.violation(sc["viol"][0], dict(kind="value-chromosome island run with closely spaced genes", detail=sc["viol"][:4],
                                          how="tools/props/c05.py scaled_runs (seed %d)" % rep.seed))
    elif bad:
        first = bad[0]
        j = None if isinstance(first, tuple) else first
        mo = None if j is None else vlib.coq_eval_one(HEADER, "%s %s" % (RUNNER, pairs[j][0]))
        rep.violation("model and implementation disagree; property oracle found no failing input",
                      dict(relation="corr_C05_pipeline (Model/Pipeline.v generational_step vs bingo.evolutionary_algorithms)",
                           case=None if j is None else steps[j]["case"], implementation=None if j is None else steps[j]["out"],
                           model=mo, disagreements=len(bad), log=log[-1500:]), has_input=False)
    if bad2 and not rep.violations:
        first = bad2[0]
        j = None if isinstance(first, tuple) else first
        mo = None if j is None else vlib.coq_eval_one(HEADER, "%s %s" % (RUNNER2, pairs2[j][0]))
        rep.violation("model and implementation disagree on an island-level operation; property oracle found no failing input",
                      dict(relation="corr_C05_island (Model/Pipeline.v island_op vs bingo Island / SerialArchipelago migration)",
                           case=None if j is None else iops[j]["case"], implementation=None if j is None else iops[j]["out"],
                           model=mo, disagreements=len(bad2), log=log2[-1500:]), has_input=False)
    if bad3 and not rep.violations:
        first = bad3[0]
        j = None if isinstance(first, tuple) else first
        mo = None if j is None else vlib.coq_eval_one(HEADER, "%s %s" % (RUNNER3, pairs3[j][0]))
        rep.violation("model and implementation disagree on a migration between two islands; property oracle found no failing input",
                      dict(relation="corr_C05_exchange (Model/ArchPipeline.v AExchange vs SerialArchipelago migration)",
                           case=None if j is None else exch[j]["case"], implementation=None if j is None else exch[j]["out"],
                           model=mo, disagreements=len(bad3), log=log3[-1500:]), has_input=False)
    if not proof["ok"] and not rep.violations:
        rep.violation("proof obligation no longer checks: %s" % proof["broken"],
                      dict(theorem=proof["broken"], log=proof["log"][-3000:]), has_input=False)

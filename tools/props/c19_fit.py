"""picklable toy classes for the evaluation-phase harness (C19/C17); shared counters survive fork"""
import multiprocessing

import numpy as np
from bingo.chromosomes.multiple_values import MultipleValueChromosome
from bingo.evaluation.fitness_function import FitnessFunction

REAL_CALLS = multiprocessing.Value("q", 0)      # independent count of real base-function invocations


class ToyChrom(MultipleValueChromosome):
    """genome = one integer code; needs local optimization while the code is below 1000"""

    def needs_local_optimization(self):
        return self.values[0] < 1000


class CountingFitness(FitnessFunction):
    def __call__(self, individual):
        self.eval_count += 1
        with REAL_CALLS.get_lock():
            REAL_CALLS.value += 1
        # training_data doubles as an offset that can be changed IN PLACE between two evaluation phases (None: no offset)
        return float(individual.values[0]) + float(self.training_data or 0.0)


class ToyOptimizer:
    """invokes the objective (code mod 3) times, then rewrites the 'constants'"""

    def __init__(self, objective_fn):
        self.objective_fn = objective_fn

    def __call__(self, individual):
        for _ in range(individual.values[0] % 3):
            self.objective_fn(individual)
        individual.values = [individual.values[0] + 1000]


class SleepyFitness(CountingFitness):
    """like CountingFitness, but the time a call takes depends on the genome, so that worker completion
    order differs from submission order"""

    def __call__(self, individual):
        import time
        time.sleep(((individual.values[0] * 7) % 5) * 0.001)
        return super().__call__(individual)


class FaultyFitness(CountingFitness):
    """raises for genome codes that are 13 modulo 1000 (a fault local optimisation cannot cure: it adds 1000)"""

    def __call__(self, individual):
        if individual.values[0] % 1000 == 13:
            raise ZeroDivisionError("fitness of genome %r" % (individual.values[0],))
        return super().__call__(individual)

"""C07: regression fitness values and gradients match their definitions.
Tie: the 4 metrics + 4 derivatives are translated (Gen/Metrics.v, re-proved every run); the residual/Jacobian assembly and the
evaluation counter are a hand model (Model/Explicit.v, exact rationals) compared with the real ExplicitRegression on integer data.
Oracle: independent formulas and central finite differences on real AGraph equations, incl. after a training-data swap."""
import math
import random
from fractions import Fraction

import vlib

HEADER = """From Bingo Require Import Model.Explicit.
From Coq Require Import ZArith QArith List Bool.
Import ListNotations.
Definition encq (v : Q) : list Z := let r := Qred v in [Qnum r; Zpos (Qden r)].
(* lc: None = use_linear_correction off or linregress raised; Some (slope, intercept) in quarters *)
Definition runner (c : bool * list Z * list Z * list (list Z) * option (Z * Z)) : list Z :=
  let '(rel, fx, y, dfdc, lc4) := c in
  let lc := match lc4 with None => None | Some (b, a) => Some (b # 4, a # 4) end in
  let fq := map inject_Z fx in let yq := map inject_Z y in
  let '(s1, fv) := evaluate_fitness_vector_lc (mkER 5) lc rel fq yq in
  let '(s2, (fv2, jac)) := get_fitness_vector_and_jacobian_lc s1 lc rel fq (map (map inject_Z) dfdc) yq in
  Z.of_nat (eval_count s2) :: flat_map encq fv ++ [(-7777)%Z] ++ flat_map encq fv2 ++ [(-7777)%Z] ++ flat_map (flat_map encq) jac."""
RUNNER = "runner"


def gen_case(rng):
    m = rng.choice([1, 2, 3, 4, 6])
    L = rng.randint(0, 3)
    rel = rng.random() < 0.5
    pw = [1, 2, 4, 8, -1, -2, -4]
    y = [rng.choice(pw) for _ in range(m)] if rel else [rng.randint(-9, 9) for _ in range(m)]
    fx = [rng.randint(-20, 20) for _ in range(m)]
    dfdc = [[rng.randint(-6, 6) for _ in range(L)] for _ in range(m)]
    # use_linear_correction: off / on with the slope and intercept scipy's linregress "returns" chosen here (an oracle in the
    # model; quarters, so that everything stays exact) / on with linregress raising ValueError (the code carries on uncorrected)
    k = rng.random()
    lc = None if k < 0.5 else ("raise" if k < 0.58 else [rng.choice([4, -4, 8, 2, 1, -2, 0, 16, 3]), rng.choice([0, 4, -4, 2, -6, 1, 12])])
    return dict(rel=rel, fx=fx, y=y, dfdc=dfdc, L=L, lc=lc)


def coq_case(c):
    lc = c.get("lc")
    return "(%s, %s, %s, %s, %s)" % (vlib.cbool(c["rel"]), vlib.clist(c["fx"]), vlib.clist(c["y"]),
                                     vlib.clist(c["dfdc"], vlib.clist),
                                     "None" if lc in (None, "raise") else "(Some (%s, %s))" % (vlib.cz(lc[0]), vlib.cz(lc[1])))


def impl_main(payload):
    import numpy as np
    from bingo.symbolic_regression.explicit_regression import ExplicitRegression, ExplicitTrainingData
    from bingo.symbolic_regression.agraph.agraph import AGraph

    class Stub:
        def __init__(self, fx, dfdc):
            self.fx, self.dfdc = fx, dfdc

        def evaluate_equation_at(self, x):
            return self.fx.copy()

        def evaluate_equation_with_local_opt_gradient_at(self, x):
            return self.fx.copy(), self.dfdc.copy()

        def get_number_local_optimization_params(self):
            return self.dfdc.shape[1]

    def encq(v):
        f = Fraction(float(v))
        return [f.numerator, f.denominator]

    import bingo.symbolic_regression.explicit_regression as er_mod
    real_linregress = er_mod.linregress
    results = []
    for c in payload["cases"]:
        m = len(c["fx"])
        x = np.zeros((m, 1))
        y = np.array(c["y"], dtype=float).reshape(m, 1)
        lc = c.get("lc")
        fit = ExplicitRegression(ExplicitTrainingData(x, y), metric="mse", relative=c["rel"], use_linear_correction=lc is not None)
        fit.eval_count = 5

        def fake_linregress(a, b, _lc=lc):
            if _lc == "raise":
                raise ValueError("all x values are identical")
            return _lc[0] / 4.0, _lc[1] / 4.0, 0.0, 0.0, 0.0
        er_mod.linregress = fake_linregress
        ind = Stub(np.array(c["fx"], dtype=float).reshape(m, 1), np.array(c["dfdc"], dtype=float).reshape(m, c["L"]))
        fv = np.atleast_1d(fit.evaluate_fitness_vector(ind))
        fv2, jac = fit.get_fitness_vector_and_jacobian(ind)
        fv2 = np.atleast_1d(fv2)
        out = [fit.eval_count]
        for v in fv:
            out += encq(v)
        out.append(-7777)
        for v in fv2:
            out += encq(v)
        out.append(-7777)
        for row in np.asarray(jac).reshape(m, c["L"]):
            for v in row:
                out += encq(v)
        results.append(dict(out=out, viol=[]))
    er_mod.linregress = real_linregress

    # ---------------- oracle on real equations
    orc = dict(checks=0, viol=[], samples=[])
    rng = random.Random(payload["seed"])
    eqs = ["C_0*X_0 + C_1", "C_0*X_0*X_0 + C_1*X_1 + C_2", "sin(C_0*X_0) + C_1*X_1", "C_0*exp(C_1*X_0) + X_1",
           "C_0/(X_0*X_0 + 2.0) + C_1*X_1*X_0", "X_0*X_1 + C_0", "X_0", "X_1"]
    def same_val(a, b):
        return a == b or (math.isnan(a) and math.isnan(b))
    for r in range(payload["oracle_runs"]):
        s = rng.randrange(10 ** 6)
        rs = np.random.RandomState(s)
        m = int(rs.randint(3, 12))
        x = rs.uniform(-2, 2, size=(m, 2))
        if r % 4 == 3:
            # sample positions given as an INTEGER array (np.arange-style inputs) with real-valued targets
            x = rs.choice([-3, -2, -1, 1, 2, 3], size=(m, 2)).astype(np.int64)
        y = rs.uniform(1.0, 3.0, size=(m, 1)) * rs.choice([-1, 1], size=(m, 1))
        y2 = rs.uniform(1.0, 3.0, size=(m, 1)) * rs.choice([-1, 1], size=(m, 1))
        eq = eqs[r % len(eqs)]
        for metric in ("mae", "mse", "rmse", "negative nmll laplace"):
            for rel in (False, True):
                # the fitness function gets its own copies of the data: the reference below uses the pristine arrays, and the
                # data held by the fitness function must still equal them after every call (a bare variable evaluates to a VIEW of x)
                fit = ExplicitRegression(ExplicitTrainingData(x.copy(), y.copy()), metric=metric, relative=rel)
                g = AGraph(equation=eq)
                L = g.get_number_local_optimization_params()
                c0 = rs.uniform(-1.5, 1.5, size=L)
                g.set_local_optimization_params(c0)
                for phase in (0, 1):
                    if phase == 1:            # same-sized data set with a different y (what RandomSubsetEvaluation does)
                        fit.training_data = ExplicitTrainingData(x.copy(), y2.copy())
                    yy = y if phase == 0 else y2
                    cnt = fit.eval_count
                    val = float(fit(g))
                    if fit.eval_count != cnt + 1:
                        orc["viol"].append("__call__ changed eval_count by %d" % (fit.eval_count - cnt))
                    val_again = float(fit(g))
                    if not (val_again == val or (math.isnan(val) and math.isnan(val_again))):
                        orc["viol"].append("%s%s fitness of %s is %r on the first call and %r on the second (seed %d)"
                                           % (metric, " relative" if rel else "", eq, val, val_again, s))
                    if not (np.array_equal(fit.training_data.x, x) and np.array_equal(fit.training_data.y, yy)):
                        orc["viol"].append("evaluating %s with %s%s changed the training data held by the fitness function (seed %d)"
                                           % (eq, metric, " relative" if rel else "", s))
                    e = (g.evaluate_equation_at(x) - yy)
                    if rel:
                        e = e / yy
                    e = e.flatten()
                    n = len(e)
                    mse = float(np.mean(e * e))
                    want = {"mae": float(np.mean(np.abs(e))), "mse": mse, "rmse": math.sqrt(mse),
                            "negative nmll laplace": -((1 - 1 / math.sqrt(n)) * (-n / 2 * math.log(mse) - n / 2 - n / 2 * math.log(2 * math.pi))
                                                       + math.log(1 / math.sqrt(n)) / 2 * (L + 1))}[metric]
                    orc["checks"] += 1
                    if not (abs(val - want) <= 1e-9 * (1 + abs(want))):
                        orc["viol"].append("%s%s fitness of %s is %r, definition gives %r (seed %d, after data swap: %s)"
                                           % (metric, " relative" if rel else "", eq, val, want, s, bool(phase)))
                        continue
                    # the residual vector and its Jacobian against their definitions: f(x) - y (divided by y in relative mode) and
                    # d f / d constants (likewise), the latter from the equation's own constant-gradient
                    if L > 0:
                        vec, jac = fit.get_fitness_vector_and_jacobian(g)
                        f_, dfdc_ = g.evaluate_equation_with_local_opt_gradient_at(x)
                        dfdc_ = np.asarray(dfdc_, dtype=float).reshape(len(x), L)
                        jw = dfdc_ / yy if rel else dfdc_
                        vec, jac = np.asarray(vec, dtype=float).reshape(-1), np.asarray(jac, dtype=float).reshape(len(x), L)
                        if np.all(np.isfinite(e)) and not np.allclose(vec, e, rtol=1e-9, atol=1e-12):
                            orc["viol"].append("%s%s fitness vector of %s is %r, the residuals are %r (seed %d)"
                                               % (metric, " relative" if rel else "", eq, vec.tolist(), e.tolist(), s))
                        elif np.all(np.isfinite(jw)) and not np.allclose(jac, jw, rtol=1e-9, atol=1e-12):
                            orc["viol"].append("%s%s Jacobian of %s is %r, d residual / d constants is %r (seed %d)"
                                               % (metric, " relative" if rel else "", eq, jac.tolist(), jw.tolist(), s))
                        if not (np.array_equal(fit.training_data.x, x) and np.array_equal(fit.training_data.y, yy)):
                            orc["viol"].append("the Jacobian call changed the training data held by the fitness function (seed %d)" % s)
                        if not same_val(float(fit(g)), val):
                            orc["viol"].append("%s%s fitness of %s changed from %r to %r after a Jacobian call (seed %d)"
                                               % (metric, " relative" if rel else "", eq, val, float(fit(g)), s))
                    cnt = fit.eval_count
                    v2, grad = fit.get_fitness_and_gradient(g)
                    if fit.eval_count != cnt + 1:
                        orc["viol"].append("get_fitness_and_gradient changed eval_count by %d" % (fit.eval_count - cnt))
                    if not (abs(float(v2) - val) <= 1e-12 * (1 + abs(val))):
                        orc["viol"].append("fitness returned with the gradient (%r) differs from __call__ (%r)" % (v2, val))
                    if L == 0 or (metric == "mae" and np.min(np.abs(e)) < 1e-3):
                        continue
                    h = 1e-6
                    fd = []
                    for j in range(L):
                        cp, cm = c0.copy(), c0.copy()
                        cp[j] += h
                        cm[j] -= h
                        g.set_local_optimization_params(cp)
                        fp = float(fit(g))
                        g.set_local_optimization_params(cm)
                        fm = float(fit(g))
                        fd.append((fp - fm) / (2 * h))
                    g.set_local_optimization_params(c0)
                    grad = np.atleast_1d(np.asarray(grad, dtype=float))
                    if len(grad) != L or any(abs(a - b) > 1e-4 * (1 + abs(b)) for a, b in zip(grad, fd)):
                        orc["viol"].append("%s%s gradient of %s is %r, finite differences give %r (seed %d, after data swap: %s)"
                                           % (metric, " relative" if rel else "", eq, grad.tolist(), fd, s, bool(phase)))
        # ---- a nearly perfect fit (residuals of magnitude 1e-10): finite differences say nothing here, the chain rule does -
        # gradient = d metric / d residuals . d residuals / d constants, with the equation's own constant-gradient as the last factor
        g = AGraph(equation=eq)
        L = g.get_number_local_optimization_params()
        if L > 0:
            c0 = rs.uniform(-1.5, 1.5, size=L)
            g.set_local_optimization_params(c0)
            f0, dfdc = g.evaluate_equation_with_local_opt_gradient_at(x)
            f0, dfdc = np.asarray(f0, dtype=float).reshape(-1, 1), np.asarray(dfdc, dtype=float).reshape(len(x), L)
            if np.all(np.isfinite(f0)) and np.all(np.isfinite(dfdc)):
                y3 = f0 + 1e-10 * rs.uniform(0.5, 1.5, size=f0.shape) * rs.choice([-1, 1], size=f0.shape)
                e = (f0 - y3).flatten()
                n = len(e)
                mse = float(np.mean(e * e))
                for metric in ("mae", "mse", "rmse", "negative nmll laplace"):
                    fit = ExplicitRegression(ExplicitTrainingData(x.copy(), y3.copy()), metric=metric)
                    v3, grad = fit.get_fitness_and_gradient(g)
                    grad = np.atleast_1d(np.asarray(grad, dtype=float))
                    want = {"mae": np.mean(np.sign(e)[:, None] * dfdc, axis=0), "mse": 2 * np.mean(e[:, None] * dfdc, axis=0),
                            "rmse": np.mean(e[:, None] * dfdc, axis=0) / math.sqrt(mse),
                            "negative nmll laplace": (1 - 1 / math.sqrt(n)) * (n / 2) * (2 * np.mean(e[:, None] * dfdc, axis=0)) / mse}[metric]
                    orc["checks"] += 1
                    if len(grad) != L or any(abs(a - b) > 1e-6 * (abs(b) + 1e-300) for a, b in zip(grad, want)):
                        orc["viol"].append("%s gradient of %s at a nearly perfect fit (residuals ~1e-10) is %r, the chain rule gives %r (seed %d)"
                                           % (metric, eq, grad.tolist(), np.asarray(want).tolist(), s))
        # ---- an equation that reproduces the data EXACTLY (residual identically 0): the fitness is the metric of the zero
        # residual - 0 for MAE/MSE/RMSE, -inf for the marginal likelihood (log 0) - and no other equation does better
        g = AGraph(equation=eq)
        L = g.get_number_local_optimization_params()
        c0 = rs.uniform(-1.5, 1.5, size=L)
        g.set_local_optimization_params(c0)
        fx = np.asarray(g.evaluate_equation_at(x), dtype=float).reshape(-1, 1)
        if np.all(np.isfinite(fx)) and np.all(np.abs(fx) > 1e-6):
            g2 = AGraph(equation=eq)
            g2.set_local_optimization_params(c0 + 0.37)
            for metric in ("mae", "mse", "rmse", "negative nmll laplace"):
                for rel in (False, True):
                    fit = ExplicitRegression(ExplicitTrainingData(x.copy(), fx.copy()), metric=metric, relative=rel)
                    with np.errstate(all="ignore"):
                        v_exact = float(fit(g))
                        v_other = float(fit(g2)) if L > 0 else None
                    want = float("-inf") if metric == "negative nmll laplace" else 0.0
                    orc["checks"] += 1
                    if not v_exact == want:
                        orc["viol"].append("%s%s fitness of %s with constants %r on the data it reproduces exactly (zero residual) is %r, "
                                           "the metric of the zero residual is %r (x seed %d)"
                                           % (metric, " relative" if rel else "", eq, c0.tolist(), v_exact, want, s))
                    elif v_other is not None and not math.isnan(v_other) and v_other < v_exact:
                        orc["viol"].append("%s%s: %s with other constants scores %r, below the exact fit's %r (seed %d)"
                                           % (metric, " relative" if rel else "", eq, v_other, v_exact, s))
        if len(orc["samples"]) < 2:
            orc["samples"].append(dict(seed=s, equation=eq, points=m))
    return dict(results=results, oracle=orc)


def check(rep, proof):
    rng = random.Random(rep.seed)
    n = 600 if rep.tier == "quick" else 20000
    cases = [gen_case(rng) for _ in range(n)]
    rc, res, out, wall = vlib.run_impl("c07", dict(cases=cases, seed=rep.seed, oracle_runs=12 if rep.tier == "quick" else 400),
                                       timeout=3400)
    if res is None:
        rep.violation("implementation harness crashed", dict(relation="corr_C07_explicit", log=out[-3000:]), has_input=False)
        return
    results, orc = res["results"], res["oracle"]
    pairs = [(coq_case(c), r["out"]) for c, r in zip(cases, results)]
    bad, log = vlib.coq_compare("c07", HEADER, RUNNER, pairs)
    rep.coverage.update(
        evaluations=len(cases) + orc["checks"],
        distinct_nontrivial=len({repr(c) for c in cases if len(c["fx"]) >= 2}),
        rule="ExplicitRegression.evaluate_fitness_vector / get_fitness_vector_and_jacobian on integer data through a stub "
             "individual (relative mode with power-of-two y so that the float quotients are exact), compared as exact fractions "
             "with Model/Explicit.v incl. the evaluation counter; half of the cases switch use_linear_correction on, with scipy's "
             "linregress replaced by a stand-in returning a chosen slope / intercept (quarters) or raising ValueError - the model "
             "takes them as an oracle; oracle: 6 real AGraph equations x 4 metrics x absolute/relative, "
             "fitness against an independent formula and gradient against central finite differences, on data the equation reproduces "
             "exactly (zero residual: 0, or -inf for the marginal likelihood, and nothing scores lower), before and after the "
             "training data is replaced by a same-sized set",
        samples=[cases[0]] + orc["samples"],
        correspondence=dict(cases=len(cases), disagreements=len(bad)),
        oracle=dict(checks=orc["checks"], violations=len(orc["viol"])),
        oracle_violations=len(orc["viol"]),
    )
    rep.assumptions += [
        "tr_metrics.py (typed translation of the numpy expressions of the 8 functions) is trusted; its output is what the theorems are about",
        "the theorems are over the reals (Coquelicot is_derive); float rounding is not modelled; use_linear_correction is off",
        "that the Jacobian handed to the metric derivative is the true Jacobian of the equation is C02",
    ]
    if orc["viol"]:
        rep.violation(orc["viol"][0], dict(kind="definition / finite-difference oracle", detail=orc["viol"][:4],
                                           how="tools/props/c07.py impl_main oracle (seed %d)" % rep.seed))
    elif bad:
        first = bad[0]
        j = None if isinstance(first, tuple) else first
        mo = None if j is None else vlib.coq_eval_one(HEADER, "%s %s" % (RUNNER, pairs[j][0]))
        rep.violation("model and implementation disagree; property oracle found no failing input",
                      dict(relation="corr_C07_explicit (Model/Explicit.v vs ExplicitRegression)",
                           case=None if j is None else cases[j], implementation=None if j is None else results[j]["out"],
                           model=mo, disagreements=len(bad), log=log[-1500:]), has_input=False)
    if not proof["ok"] and not rep.violations:
        rep.violation("proof obligation no longer checks: %s" % proof["broken"],
                      dict(theorem=proof["broken"], log=proof["log"][-3000:]), has_input=False)

"""picklable fitness functions used by the checkpoint harness (must live in an importable module)"""
import numpy as np
from bingo.evaluation.fitness_function import FitnessFunction


class SumFitness(FitnessFunction):
    def __call__(self, individual):
        self.eval_count += 1
        return float(np.sum(np.asarray(individual.values, dtype=float)))


class DistanceToAverage(FitnessFunction):
    def __call__(self, individual):
        self.eval_count += 1
        return float(np.linalg.norm(np.asarray(individual.values, dtype=float) - np.mean(self.training_data)))


def rand_value():
    """value generator drawing from numpy's *global* generator.  (Passing the bound method np.random.random
    itself makes dill rebuild a detached RandomState on load, so a restored optimizer would draw from a private
    copy of the generator - an artefact of pickling, not of bingo; see DESIGN.md C13.)"""
    return np.random.random()

"""C14: evolve_until_convergence reports truthfully why and when it stopped."""
import math
import random
from fractions import Fraction

import vlib

HEADER = """From Bingo Require Import Lib.Key Model.Converge.
From Coq Require Import ZArith QArith List.
Import ListNotations.
Definition s_init (b : key) : st := mkSt 0 0 0 None b 0 0 0 0 [].
(* between two calls the caller may change the population without evolving it (inject a seed individual, regenerate):
   the optimizer's true best fitness changes while its generational age does not *)
Definition set_world_best (s : st) (b : key) : st :=
  mkSt (age s) (start_age s) (improve_age s) (best s) b (cur_evals s) (now s) (t_start s) (last_check s) (speeds s).
Fixpoint run_calls (s : st) (calls : list (cfg * list world * option key)) : list Z :=
  match calls with
  | [] => []
  | (c, tape, pre) :: r =>
    let s := match pre with Some b => set_world_best s b | None => s end in
    let o := euc c s tape in
    enc_result o ++ (match o with Ok (_, s', _) => run_calls s' r | _ => [] end)
  end.
Definition runner (c : key * list (cfg * list world * option key)) : list Z := run_calls (s_init (fst c)) (snd c)."""
RUNNER = "runner"

DURS = [Fraction(1, 8), Fraction(1, 4), Fraction(1, 2), Fraction(1), Fraction(2)]


def gen_case(rng):
    calls = []
    evals = 0
    for _ in range(rng.choice([1, 1, 2, 2, 3])):
        mx, mn, fr = rng.randint(1, 8), rng.choice([0, 0, 1, 2, 3, 5, 6]), rng.choice([1, 1, 2, 3])
        cfg = dict(max_gen=mx, threshold=rng.choice([0, 2, 5]), freq=fr, min_gen=mn,
                   # limits of zero are limits like any other: already met at entry
                   stag=rng.choice([None, None, 1, 2, 3, 4, 0]), max_evals=rng.choice([None, None, 5, 12, 20, 40, 0, 0]),
                   max_time=rng.choice([None, None, None, "1/4", "1", "5/2", "4", "10", "0"]))
        tape = []
        mode = rng.choice(["down", "flat", "wild", "nan"])
        cur = rng.randint(3, 9)
        for _ in range(mn + mx + 2):
            evals += rng.randint(0, 6)
            if mode == "down":
                cur = max(0, cur - rng.randint(0, 2))
            elif mode == "wild":
                cur = rng.randint(0, 9)
            b = cur
            if mode == "nan" and rng.random() < 0.6 or rng.random() < 0.05:
                b = None
            tape.append([str(rng.choice(DURS)), b, evals])
        call = dict(cfg=cfg, tape=tape)
        if calls and rng.random() < 0.5:
            # the population was changed by hand since the previous call (a seed individual injected, the population regenerated):
            # a new best fitness - often one that already meets the threshold - at an unchanged generational age
            call["pre_best"] = rng.choice([0, 0, 1, 2, 5, 9, "nan"])
        calls.append(call)
    case = dict(init_best=rng.choice([None, 4, 7, 1]), calls=calls)
    if rng.random() < 0.08:
        # time also passes BEFORE the first check of a call (the entry evaluation of a fresh population can be slow): outside
        # the model, whose clock moves only inside evolve calls - these cases go through the oracle only
        case["entry_dt"] = rng.choice(["1/3", "3/4", "11/4", "29/10", "5", "12"])
    return case


def exhaustive_cases():
    import itertools
    out = []
    for mx in (1, 2, 3):
        for mn in (0, 1, 2):
            for fr in (1, 2):
                for stag in (None, 1, 2):
                    for bud in (None, 2):
                        for traj in itertools.product([None, 1, 3], repeat=3):
                            tape = [["1", traj[min(i, 2)], i + 1] for i in range(mn + mx + 2)]
                            out.append(dict(init_best=3, calls=[dict(cfg=dict(max_gen=mx, threshold=1, freq=fr, min_gen=mn,
                                                                               stag=stag, max_evals=bud, max_time=None),
                                                                      tape=tape)]))
    return out


def cq(fs):
    f = Fraction(fs)
    return "(%d # %d)" % (f.numerator, f.denominator)


def coq_case(c):
    def cfgt(g):
        return "(mkCfg %d %d %d %d %s %s %s)" % (
            g["max_gen"], g["threshold"], g["freq"], g["min_gen"], vlib.copt(g["stag"]), vlib.copt(g["max_evals"]),
            "None" if g["max_time"] is None else "(Some %s)" % cq(g["max_time"]))

    def call(cl):
        pre = cl.get("pre_best")
        pre_s = "None" if pre is None else ("(Some None)" if pre == "nan" else "(Some (Some %d))" % pre)
        return "(%s, %s, %s)" % (cfgt(cl["cfg"]), vlib.clist(cl["tape"], lambda w: "(mkW %s %s %d)" % (cq(w[0]), vlib.copt(w[1]), w[2])),
                                 pre_s)
    return "(%s, %s)" % (vlib.copt(c["init_best"]), vlib.clist(c["calls"], call))


# ------------------------------------------------------------------ implementation side
def impl_main(payload):
    import datetime as real_dt
    import signal
    import bingo.evolutionary_optimizers.evolutionary_optimizer as eo
    import bingo.evolutionary_optimizers.checkpoint_controller as cc
    from bingo.evolutionary_algorithms.ea_diagnostics import EaDiagnostics

    class Clock:
        t = Fraction(0)
    base = real_dt.datetime(2020, 1, 1)

    class FakeDT:
        @staticmethod
        def now():
            return base + real_dt.timedelta(seconds=float(Clock.t))
    eo.datetime = FakeDT
    cc.datetime = FakeDT

    class OutOfTape(Exception):
        pass

    def fl(v):
        return float("nan") if v is None else float(v)

    class Scripted(eo.EvolutionaryOptimizer):
        def __init__(self, init_best):
            super().__init__()
            self.cur_best, self.cur_evals, self.tape = fl(init_best), 0, []
            self.evolves, self.viol, self.cfg, self.t0 = [], [], None, None
            self.indep_improve_age, self.indep_last = 0, None
            self.entry_dt = None

        def note_update(self):
            last, cur = self.indep_last, self.cur_best
            if last is None or cur < last or (math.isnan(last) and not math.isnan(cur)):
                self.indep_improve_age = self.generational_age
            self.indep_last = cur

        def _do_evolution(self, k):
            g = self.cfg
            done = self.generational_age - self.call_start_age
            if k < 1:
                self.viol.append("evolve(%r): a round of less than one generation" % (k,))
            if done >= g["min_gen"]:
                el = Clock.t - self.t0
                why = []
                if done >= g["max_gen"]:
                    why.append("max generations reached")
                if self.cur_best <= g["threshold"]:
                    why.append("fitness threshold met")
                if g["stag"] is not None and self.generational_age - self.indep_improve_age >= g["stag"]:
                    why.append("stagnation limit reached")
                if g["max_evals"] is not None and self.cur_evals >= g["max_evals"]:
                    why.append("evaluation budget spent")
                if g["max_time"] is not None and el >= Fraction(g["max_time"]):
                    why.append("time limit reached")
                if why:
                    self.viol.append("a further round of evolution was started although: " + ", ".join(why))
            if not self.tape:
                raise OutOfTape()
            d, b, e = self.tape.pop(0)
            self.generational_age += k
            Clock.t += Fraction(d)
            self.cur_best, self.cur_evals = fl(b), e
            self.evolves.append(k)
            self.note_update()

        def get_best_fitness(self):
            if self.entry_dt is not None:            # the first query of a call: the entry evaluation takes its time
                Clock.t += Fraction(self.entry_dt)
                self.entry_dt = None
            return self.cur_best

        def get_best_individual(self):
            return None

        def get_fitness_evaluation_count(self):
            return self.cur_evals

        def get_ea_diagnostic_info(self):
            return EaDiagnostics()

        def _get_potential_hof_members(self):
            return []

    def enc_fit(v):
        if v is None:
            return [-1]
        return [0] if math.isnan(v) else [1, int(v)]

    def run_case(c, scale):
        Clock.t = Fraction(0)
        opt = Scripted(c["init_best"])
        out, viol = [], []
        for cl in c["calls"]:
            g = cl["cfg"]
            opt.cfg, opt.tape, opt.evolves = g, [list(w) for w in cl["tape"]], []
            if cl.get("pre_best") is not None:
                opt.cur_best = fl(None if cl["pre_best"] == "nan" else cl["pre_best"])
            opt.call_start_age, opt.t0 = opt.generational_age, Clock.t
            opt.entry_dt = c.get("entry_dt")
            if opt.indep_last is None:
                pass
            # the entry update happens before any evolution: mirror it in the independent tracker
            pre_last = opt.indep_last
            mt = None if g["max_time"] is None else float(Fraction(g["max_time"])) * scale
            signal.alarm(10)
            try:
                opt_last = opt.indep_last
                # entry update (done by the code through _update_best_fitness at the start of the call)
                last, cur = opt.indep_last, opt.cur_best
                if last is None or cur < last or (math.isnan(last) and not math.isnan(cur)):
                    opt.indep_improve_age = opt.generational_age
                opt.indep_last = cur
                r = opt.evolve_until_convergence(g["max_gen"], float(g["threshold"]), g["freq"], g["min_gen"], g["stag"],
                                                 g["max_evals"], mt)
            except OutOfTape:
                out += [1]
                break
            except Exception as e:  # noqa
                signal.alarm(0)
                out += [9]
                viol.append("evolve_until_convergence raised %r" % (e,))
                break
            finally:
                signal.alarm(0)
            ngen = sum(opt.evolves)
            out += [0, r.status, 1 if r.success else 0, r.ngen] + enc_fit(r.fitness) + \
                   [opt.generational_age, opt._fitness_improvement_age] + list(opt.evolves)
            viol += opt.viol
            opt.viol = []
            el = Clock.t - opt.t0
            if r.ngen != ngen:
                viol.append("reported ngen %r, evolved %r generations in this call" % (r.ngen, ngen))
            if ngen < g["min_gen"]:
                viol.append("evolved %d generations, minimum is %d" % (ngen, g["min_gen"]))
            same = (r.fitness == opt.cur_best) or (math.isnan(r.fitness) and math.isnan(opt.cur_best))
            if not same:
                viol.append("reported fitness %r is not the optimizer's best fitness %r" % (r.fitness, opt.cur_best))
            if r.success != (opt.cur_best <= g["threshold"]):
                viol.append("success=%r but best fitness %r vs threshold %r" % (r.success, opt.cur_best, g["threshold"]))
            if r.success != (r.status == 0):
                viol.append("success flag and status disagree")
            if r.status == 0 and not opt.cur_best <= g["threshold"]:
                viol.append("status 0 but best %r > threshold" % opt.cur_best)
            if r.status == 1 and not (g["stag"] is not None and opt.generational_age - opt.indep_improve_age >= g["stag"]):
                viol.append("status 1 (stagnation) but the best fitness improved %d generations ago, limit %r"
                            % (opt.generational_age - opt.indep_improve_age, g["stag"]))
            if r.status == 2 and ngen < g["max_gen"]:
                viol.append("status 2 (max generations) after %d of %d generations" % (ngen, g["max_gen"]))
            if r.status == 3 and not (g["max_evals"] is not None and opt.cur_evals >= g["max_evals"]):
                viol.append("status 3 but evaluation budget not spent")
            if r.status == 4 and not (g["max_time"] is not None and el >= Fraction(g["max_time"]) * Fraction(1 - 1e-6)):
                viol.append("status 4 but elapsed %s < max_time %s" % (el, g["max_time"]))
            if r.status == 5 and g["max_time"] is None:
                viol.append("status 5 without a time limit")
            if r.status not in (0, 1, 2, 3, 4, 5):
                viol.append("unknown status %r" % (r.status,))
        return out, viol

    def on_alarm(signum, frame):
        raise TimeoutError("evolve_until_convergence did not return within 10 s")
    signal.signal(signal.SIGALRM, on_alarm)
    results = []
    for c in payload["cases"]:
        out, viol = run_case(c, 1.0)
        timed = any(cl["cfg"]["max_time"] is not None for cl in c["calls"])
        robust = True
        if timed:
            o2, _ = run_case(c, 1.0 + 1e-7)
            o3, _ = run_case(c, 1.0 - 1e-7)
            robust = (o2 == out and o3 == out)
        results.append(dict(out=out, viol=viol, robust=robust))
    return dict(results=results)


def check(rep, proof):
    rng = random.Random(rep.seed)
    n = 2500 if rep.tier == "quick" else 60000
    exh = exhaustive_cases() if rep.tier == "thorough" else []
    cases = exh + [gen_case(rng) for _ in range(n)]
    rc, res, out, wall = vlib.run_impl("c14", dict(cases=cases), timeout=3000)
    if res is None:
        rep.violation("implementation harness crashed", dict(relation="corr_C14_converge", log=out[-3000:]), has_input=False)
        return
    results = res["results"]
    oracle_bad = [(i, r["viol"]) for i, r in enumerate(results) if r["viol"]]
    idx = [i for i, r in enumerate(results) if r["robust"] and "entry_dt" not in cases[i]]
    pairs = [(coq_case(cases[i]), results[i]["out"]) for i in idx]
    bad, log = vlib.coq_compare("c14", HEADER, RUNNER, pairs)
    st = {}
    for r in results:
        k = tuple(r["out"][1:2]) if r["out"] and r["out"][0] == 0 else ("tape",)
        st[str(k)] = st.get(str(k), 0) + 1
    rep.coverage.update(
        evaluations=len(cases),
        distinct_nontrivial=len({repr(c) for c in cases if sum(len(cl["tape"]) for cl in c["calls"]) >= 3}),
        rule="real EvolutionaryOptimizer.evolve_until_convergence driven through a scripted subclass (oracle: per-evolve duration, "
             "best fitness incl. NaN, evaluation count) with datetime replaced by the oracle clock; max 1-8, min 0-6, frequency 1-3, "
             "stagnation/budget/time limits present or absent (also already met at entry), 1-3 consecutive calls; cases whose "
             "outcome changes when max_time is perturbed by 1e-7 are excluded from the exact comparison (float vs rational "
             "boundary) and counted; thorough adds an exhaustive small scope; distinct by case text",
        samples=[cases[len(exh)]],
        correspondence=dict(cases=len(pairs), disagreements=len(bad), exhaustive_small_scope=len(exh),
                            excluded_near_float_boundary=sum(1 for r in results if not r["robust"]),
                            oracle_only_entry_time_cases=sum(1 for c in cases if "entry_dt" in c)),
        oracle_violations=len(oracle_bad),
        distribution=dict(first_status=st),
    )
    rep.assumptions += [
        "the clock advances only inside evolve calls (oracle durations > 0); the real clock also advances by microseconds elsewhere",
        "time quantities are exact rationals in the model; the code uses doubles (boundary cases excluded as described)",
        "fitness order embedding into Z; threshold is not NaN",
    ]
    if oracle_bad:
        i, v = oracle_bad[0]
        rep.violation("; ".join(v[:3]), dict(case=cases[i], observed=results[i]["out"], oracle=v))
    elif bad:
        first = bad[0]
        j = None if isinstance(first, tuple) else idx[first]
        mo = None if j is None else vlib.coq_eval_one(HEADER, "%s %s" % (RUNNER, pairs[first][0]))
        rep.violation("model and implementation disagree; property oracle found no failing input",
                      dict(relation="corr_C14_converge (Model/Converge.v vs evolve_until_convergence)",
                           case=None if j is None else cases[j], implementation=None if j is None else results[j]["out"],
                           model=mo, disagreements=len(bad), log=log[-1500:]), has_input=False)
    if not proof["ok"] and not rep.violations:
        rep.violation("proof obligation no longer checks: %s" % proof["broken"],
                      dict(theorem=proof["broken"], log=proof["log"][-3000:]), has_input=False)

"""toy fitness for the C05 harness: genome = 3 digits in base 4, fitness = the number they spell"""
import numpy as np
from bingo.evaluation.fitness_function import FitnessFunction


def digit_value(values):
    return float(sum(int(v) * 4 ** i for i, v in enumerate(values)))


def small_int():
    return int(np.random.randint(0, 4))


class DigitFitness(FitnessFunction):
    def __call__(self, individual):
        self.eval_count += 1
        return digit_value(individual.values)

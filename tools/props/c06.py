"""C06: local optimisation leaves the individual and its reported fitness in agreement."""
import math
import random

import vlib

HEADER = """From Bingo Require Import Lib.Key Model.LocalOpt.
From Coq Require Import ZArith List Bool.
Import ListNotations.
Open Scope Z_scope.
(* constants are codes; base looks the vector up in a table recorded from independent evaluations *)
Definition lookup_base (tbl : list (list Z * option Z)) (c : list Z) : key :=
  match find (fun e => if list_eq_dec Z.eq_dec (fst e) c then true else false) tbl with Some e => snd e | None => Some (-424242) end.
Definition enc_key (k : key) : list Z := match k with None => [0] | Some z => [1; z] end.
Definition mkrun (r : bool * list (list Z) * list Z) : run Z :=
  let '(ok, tr, fin) := r in if ok then Returns Z tr fin else RaisesTypeError Z tr.
Definition run_lo (c : list (list Z * option Z) * (list Z * bool) * (bool * list (list Z) * list Z) * (bool * list (list Z) * list Z)) : list Z :=
  let '(tbl, (c0, needs), r1, r2) := c in
  let '(o', i', v) := lo_call Z (lookup_base tbl) (mkOpt 7) (mkInd Z c0 needs) (mkrun r1) (mkrun r2) in
  method o' :: (if needs_opt Z i' then 1 else 0) :: Z.of_nat (length (consts Z i')) :: consts Z i'
  ++ (match v with None => [-9] | Some k => enc_key k end).
Definition run_fit (c : list (option Z * list Z)) : list Z :=
  match c with
  | [] => [-9]
  | first :: retries => let '(f, cs) := regressor_fit Z first retries in enc_key f ++ cs
  end.
Definition runner (c : Z * (list (list Z * option Z) * (list Z * bool) * (bool * list (list Z) * list Z) * (bool * list (list Z) * list Z))
                       * list (option Z * list Z)) : list Z :=
  let '(kind, lo, fits) := c in if kind =? 0 then run_lo lo else run_fit fits."""
RUNNER = "runner"


def coq_case(c):
    vec = vlib.clist
    if c["kind"] == 0:
        tbl = vlib.clist(c["table"], lambda e: "(%s, %s)" % (vec(e[0]), vlib.copt(e[1])))
        run = lambda r: "(%s, %s, %s)" % (vlib.cbool(r[0]), vlib.clist(r[1], vec), vec(r[2]))  # noqa
        lo = "(%s, (%s, %s), %s, %s)" % (tbl, vec(c["c0"]), vlib.cbool(c["needs"]), run(c["r1"]), run(c["r2"]))
        return "(0, %s, @nil (option Z * list Z))" % lo
    fits = vlib.clist(c["fits"], lambda e: "(%s, %s)" % (vlib.copt(e[0]), vec(e[1])))
    return ("(1, (@nil (list Z * option Z), (@nil Z, false), (true, @nil (list Z), @nil Z), (true, @nil (list Z), @nil Z)), %s)"
            % fits)


def impl_main(payload):
    import warnings
    import numpy as np
    import bingo.local_optimizers.scipy_optimizer as so
    from bingo.local_optimizers.local_opt_fitness import LocalOptFitnessFunction
    from bingo.symbolic_regression.explicit_regression import ExplicitRegression, ExplicitTrainingData
    from bingo.symbolic_regression.agraph.agraph import AGraph
    from bingo.symbolic_regression.equation_regressor import EquationRegressor
    warnings.simplefilter("ignore")
    real_opt = so.optimize
    rec = dict(calls=[])

    class FakeOptimize:
        """wraps scipy.optimize: records every trial vector handed to the objective and the result (or TypeError)"""

        def _run(self, fn, sub, x0, **kw):
            trials = []

            def obj(p, *a):
                trials.append(np.array(p, dtype=float).copy())
                return sub(p, *a)
            try:
                res = fn(obj, x0, **kw)
                rec["calls"].append((True, trials, np.array(res.x, dtype=float).copy()))
                return res
            except TypeError:
                rec["calls"].append((False, trials, None))
                raise

        def minimize(self, sub, x0, **kw):
            return self._run(real_opt.minimize, sub, x0, **kw)

        def root(self, sub, x0, **kw):
            return self._run(real_opt.root, sub, x0, **kw)
    so.optimize = FakeOptimize()
    results = []
    rng = random.Random(payload["seed"])
    eqs = ["C_0*X_0 + C_1", "C_0*X_0*X_0 + C_1", "sin(C_0*X_0) + C_1", "X_0 + 2.0", "C_0*exp(C_1*X_0)/(1.0 + exp(C_1*X_0))",
           "C_0 + C_1*X_0 + C_2*X_0*X_0 + C_3*X_0*X_0*X_0", "X_0 + 0*2.5 (simplified: no constants, requests optimisation)",
           "X_0 + X_0 (constant mutated away before the first evaluation)", "C_0/(X_0 - X_0) + C_1"]
    methods = ["lm", "BFGS", "Nelder-Mead", "Powell", "CG", "L-BFGS-B", "TNC", "SLSQP"]
    try:
        for c in payload["cases"]:
            viol = []
            if c["kind"] == 0:
                s = c["seed"]
                np.random.seed(s)
                m = c["points"]
                x = np.linspace(-2, 2, m).reshape(-1, 1)
                y = 1.5 * x ** 2 + 0.5
                metric = c["metric"] if c["method"] != "lm" else "mse"
                fit = ExplicitRegression(ExplicitTrainingData(x, y), metric=metric)
                opt = so.ScipyOptimizer(fit, method=c["method"], tol=1e-6, param_init_bounds=[-1, 1])
                lo = LocalOptFitnessFunction(fit, opt)
                if c["eq"] == 6:
                    # constants that vanish under simplification: the equation requests optimisation and holds none
                    g = AGraph(use_simplification=True, equation="X_0 + 0*2.5")
                elif c["eq"] == 8:
                    # the residual is non-finite whatever the constants: some methods (BFGS, SLSQP) walk to NaN constants
                    g = AGraph(equation="C_0/(X_0 - X_0) + C_1")
                elif c["eq"] == 7:
                    # the only constant-using command overwritten before the first evaluation (as a mutation does)
                    g = AGraph(equation="X_0 + 1.5")
                    g.mutable_command_array[-1] = [2, 0, 0]
                else:
                    g = AGraph(equation=eqs[c["eq"]])
                L = g.get_number_local_optimization_params()
                if not c["needs"]:
                    g.set_local_optimization_params(tuple(float(i + 1) for i in range(L)))
                codes, table = {}, []

                def code(vec):
                    key = tuple(float(v).hex() for v in vec)
                    if len(key) == 0:
                        return []           # no constants: the empty vector is its own code
                    if key not in codes:
                        codes[key] = len(codes)
                    return [codes[key]] if True else None
                c0 = tuple(float(v) for v in g.get_local_optimization_params())
                needs = bool(g.needs_local_optimization())
                if c.get("stale") == 1:
                    # history: the individual was evaluated earlier (fitness stored), its constants were set since
                    g.fitness = 987654.321
                elif c.get("stale") == 2 and not needs:
                    # history: evaluated through this very wrapper on other constants, stored as Evaluation does, then re-set
                    g.set_local_optimization_params(tuple(float(i) - 3.25 for i in range(L)))
                    g.fitness = lo(g)
                    g.set_local_optimization_params(c0)
                    rec["calls"] = []
                rec["calls"] = []
                before_method = opt.options["method"]
                try:
                    v = lo(g)
                    raised = False
                except TypeError:
                    raised, v = True, None
                except Exception as e:  # noqa   anything else is not part of the wrapper's contract
                    raised, v = True, None
                    viol.append("the locally optimizing wrapper raised %r for %s with method %s (%d constants, optimisation requested: %r)"
                                % (e, eqs[c["eq"]], c["method"], L, needs))
                fin = tuple(float(q) for q in g.get_local_optimization_params())
                # independent base fitness of the constants now held
                g2 = g.copy() if c["eq"] in (6, 7) else AGraph(equation=eqs[c["eq"]])
                g2.set_local_optimization_params(fin)
                indep = float(ExplicitRegression(ExplicitTrainingData(x, y), metric=metric)(g2))

                def fcode(val):
                    return None if math.isnan(val) else (10 ** 6 if val == float("inf") else int(round(val * 1e6)) if abs(val) < 1e9 else 10 ** 6)
                # model inputs: every distinct vector gets a one-element code vector
                runs = []
                for (ok, trials, finv) in rec["calls"][:2]:
                    runs.append([ok, [code(t) for t in trials[-3:]], code(finv) if ok else []])
                while len(runs) < 2:
                    runs.append([True, [], []])
                out = [7, 1 if g.needs_local_optimization() else 0, len(code(fin))] + code(fin)
                table.append([code(fin), fcode(indep)])
                if not raised:
                    out += [0] if math.isnan(float(v)) else [1, fcode(float(v))]
                    same = (float(v) == indep) or (math.isnan(float(v)) and math.isnan(indep))
                    if not same:
                        viol.append("reported fitness %r, base fitness of the constants held afterwards %r (%s, %s, %s)"
                                    % (float(v), indep, eqs[c["eq"]], c["method"], metric))
                else:
                    out += [-9]
                if needs and not raised and g.needs_local_optimization():
                    viol.append("equation still requests optimisation after the fit")
                if len(fin) != L:
                    viol.append("%d constants stored, the expression has %d" % (len(fin), L))
                if not needs:
                    if rec["calls"]:
                        viol.append("the optimizer ran although optimisation was not requested")
                    if fin != c0:
                        viol.append("constants changed although optimisation was not requested")
                else:
                    last_ok = [cl for cl in rec["calls"] if cl[0]]
                    if not raised and last_ok and [float(v).hex() for v in last_ok[-1][2]] != [float(v).hex() for v in fin]:
                        viol.append("constants held afterwards %r are not the optimizer's result %r" % (fin, tuple(last_ok[-1][2])))
                if opt.options["method"] != before_method and not raised:
                    viol.append("method option left at %r after the fallback (was %r)" % (opt.options["method"], before_method))
                case = dict(kind=0, table=table, c0=code(c0) if L else [], needs=needs, r1=runs[0], r2=runs[1])
                if L == 0:
                    case["c0"] = []
                results.append(dict(case=case, out=out, viol=viol, meta=dict(eq=eqs[c["eq"]], method=c["method"], fallback=len(rec["calls"]) > 1, stale=c.get("stale", 0))))
            else:
                # EquationRegressor.fit with a scripted fit function: arbitrary fitness sequences incl. NaN
                seq = c["fits"]
                g = AGraph(equation="C_0*X_0 + C_1")
                reg = EquationRegressor(g, fit_retries=len(seq) - 1)
                it = iter(seq)
                known = {}

                def scripted(eq, _it=it, _known=known):
                    # like LocalOptFitnessFunction: an equation that does not ask for optimisation is only evaluated
                    if not eq.needs_local_optimization():
                        f = _known[tuple(int(v) for v in eq.get_local_optimization_params())]
                        return float("nan") if f is None else float(f)
                    f, cs = next(_it)
                    eq.set_local_optimization_params(tuple(float(v) for v in cs))
                    _known[tuple(cs)] = f
                    return float("nan") if f is None else float(f)
                reg._get_local_opt = lambda X, y: scripted
                reg.fit(np.zeros((2, 1)), np.zeros((2, 1)))
                f = g.fitness
                cs = [int(v) for v in g.get_local_optimization_params()]
                out = ([0] if math.isnan(f) else [1, int(f)]) + cs
                first = seq[0][0]
                if first is not None and (math.isnan(f) or f > first):
                    viol.append("refit returned fitness %r, worse than the first fit %r" % (f, first))
                match = [s for s in seq if s[1] == cs]
                if not any((s[0] is None and math.isnan(f)) or (s[0] is not None and s[0] == f) for s in match):
                    viol.append("reported fitness %r does not belong to the constants returned %r" % (f, cs))
                results.append(dict(case=dict(kind=1, fits=seq), out=out, viol=viol, meta={}))
                # fit the same equation AGAIN: the constants it holds are the incumbent, evaluated first and never given up for worse
                seq2 = c.get("fits2")
                if seq2 and not viol:
                    inc_f, inc_cs = (None if math.isnan(f) else int(f)), list(cs)
                    known[tuple(inc_cs)] = inc_f
                    it2 = iter(seq2)
                    reg.fit_retries = len(seq2)
                    reg._get_local_opt = lambda X, y: (lambda eq: scripted(eq, it2, known))
                    viol2 = []
                    try:
                        reg.fit(np.zeros((2, 1)), np.zeros((2, 1)))
                    except StopIteration:
                        viol2.append("the second fit made more optimisation attempts than fit_retries asks for")
                    f2 = g.fitness
                    cs2 = [int(v) for v in g.get_local_optimization_params()]
                    out2 = ([0] if math.isnan(f2) else [1, int(f2)]) + cs2
                    if inc_f is not None and (math.isnan(f2) or f2 > inc_f):
                        viol2.append("fitting an already fitted equation again returned fitness %r, worse than the %r it had (constants %r -> %r)"
                                     % (f2, inc_f, inc_cs, cs2))
                    if next(it2, None) is not None:
                        viol2.append("the second fit made fewer optimisation attempts than fit_retries asks for")
                    results.append(dict(case=dict(kind=1, fits=[[inc_f, inc_cs]] + seq2), out=out2, viol=viol2, meta=dict(refit=True)))
        # ---- sequences: an optimised equation loses a constant through a stack edit and goes through the wrapper again.
        # The number of stored constants must follow the expression; the value is the base fitness of the constants held.
        from bingo.symbolic_regression.agraph.simplification_backend import simplification_backend as sbk
        seqv, seqn = [], 0
        for method in payload.get("shrink_methods", []):
            for eq, new_last in (("C_0*X_0 + C_1", "dup-first"), ("C_0*X_0*X_0 + C_1*X_0 + C_2", "dup-first")):
                np.random.seed(payload["seed"] % 1000 + seqn)
                x = np.linspace(-2, 2, 9).reshape(-1, 1)
                y = 1.5 * x ** 2 + 0.5
                fit = ExplicitRegression(ExplicitTrainingData(x, y), metric="mse")
                lo = LocalOptFitnessFunction(fit, so.ScipyOptimizer(fit, method=method, tol=1e-6, param_init_bounds=[-1, 1]))
                g = AGraph(equation=eq)
                lo(g)
                arr = g.mutable_command_array
                last = arr[-1].copy()
                arr[-1] = [last[0], last[1], last[1]]         # a + b  ->  a + a : the last constant is no longer used
                v = float(lo(g))
                held = tuple(float(q) for q in g.get_local_optimization_params())
                n_expr = int(sum(1 for r in sbk.reduce_stack(np.asarray(g.command_array)) if r[0] == 1))
                seqn += 1
                if len(held) != n_expr:
                    seqv.append("after %s lost a constant through a stack edit the wrapper leaves %d constants stored, the expression has %d (%s)"
                                % (eq, len(held), n_expr, method))
                g2 = AGraph()
                g2.command_array = np.asarray(g.command_array).copy()
                if len(held) == g2.get_number_local_optimization_params():
                    g2.set_local_optimization_params(held)
                    want = float(ExplicitRegression(ExplicitTrainingData(x, y), metric="mse")(g2))
                    if not (v == want or (math.isnan(v) and math.isnan(want))):
                        seqv.append("second call on the shrunk %s returned %r, base fitness of the constants held is %r (%s)" % (eq, v, want, method))
                if g.needs_local_optimization():
                    seqv.append("the shrunk %s still requests optimisation after the wrapper (%s)" % (eq, method))
    finally:
        so.optimize = real_opt
    # ---- the regressor wrapper on its REAL path (its own fitness function and optimizer), every metric with a root and two
    # minimize methods, data with outliers (so least squares is not optimal for the absolute-error metric): the fitness it
    # reports is the base fitness, UNDER THE CONFIGURED METRIC, of the constants the equation holds; fitting an equation that
    # already holds good constants never makes them worse under that metric
    x = np.linspace(-2, 2, 41).reshape(-1, 1)
    y = 2 * x + 1
    y[[5, 20, 33], 0] += [40.0, -35.0, 50.0]
    for metric in ("mse", "mae", "rmse"):
        for algo in ("lm", "BFGS", "Nelder-Mead"):
            base = ExplicitRegression(ExplicitTrainingData(x, y), metric=metric)
            np.random.seed(payload["seed"] % 1000 + seqn)
            seqn += 1
            for incumbent in (None, (2.0, 1.0)):
                g = AGraph(equation="C_0*X_0 + C_1")
                before = None
                if incumbent is not None:
                    g.set_local_optimization_params(incumbent)
                    before = float(base(g.copy()))
                reg = EquationRegressor(g, metric=metric, algo=algo, fit_retries=2)
                try:
                    reg.fit(x, y)
                except Exception as e:  # noqa
                    seqv.append("EquationRegressor(metric=%r, algo=%r).fit raised %r" % (metric, algo, e))
                    continue
                held = tuple(float(v) for v in g.get_local_optimization_params())
                want = float(base(g.copy()))
                got = float(g.fitness)
                if not (abs(got - want) <= 1e-12 * (1 + abs(want)) or (math.isnan(got) and math.isnan(want))):
                    seqv.append("EquationRegressor(metric=%r, algo=%r): reported fitness %r, the %s of the constants held %r is %r"
                                % (metric, algo, got, metric, held, want))
                if before is not None and not want <= before * (1 + 1e-12):
                    seqv.append("EquationRegressor(metric=%r, algo=%r): an equation holding constants %r (%s %r) was fitted again and now "
                                "holds %r (%s %r)" % (metric, algo, incumbent, metric, before, held, metric, want))
                if incumbent is None:
                    # the same regressor, the same X array object, NEW targets: the fit is about the data it was given now
                    y_b = -3 * x + 0.5
                    y_b[[7, 30], 0] += [25.0, -20.0]
                    base_b = ExplicitRegression(ExplicitTrainingData(x, y_b), metric=metric)
                    inc_b = float(base_b(g.copy()))
                    try:
                        reg.fit(x, y_b)
                    except Exception as e:  # noqa
                        seqv.append("EquationRegressor(metric=%r, algo=%r).fit on new targets raised %r" % (metric, algo, e))
                        continue
                    want_b, got_b = float(base_b(g.copy())), float(g.fitness)
                    if not (abs(got_b - want_b) <= 1e-12 * (1 + abs(want_b)) or (math.isnan(got_b) and math.isnan(want_b))):
                        seqv.append("EquationRegressor(metric=%r, algo=%r) fitted to new targets (same X array): reported fitness %r, the %s "
                                    "of the constants held on the data just given is %r" % (metric, algo, got_b, metric, want_b))
                    elif not want_b <= inc_b * (1 + 1e-12):
                        seqv.append("EquationRegressor(metric=%r, algo=%r) fitted to new targets: %s went from %r to %r"
                                    % (metric, algo, metric, inc_b, want_b))
    # ---- with simplification the constants of an equation fold (C_0*X_0 + C_1*X_0 has ONE free constant): after the wrapper the
    # number of stored constants is the number of constant loads of the simplified expression, for every method
    y_lin = 2 * x + 1
    for eq_text in ("C_0*X_0 + C_1*X_0 + C_2", "C_0 + C_1 + X_0", "C_0*C_1*X_0 + X_0", "C_0*X_0 + C_1"):
        for method in ("lm", "BFGS", "Nelder-Mead"):
            g = AGraph(use_simplification=True, equation=eq_text)
            fit_s = ExplicitRegression(ExplicitTrainingData(x, y_lin), metric="mse")
            np.random.seed(payload["seed"] % 1000 + seqn)
            seqn += 1
            try:
                LocalOptFitnessFunction(fit_s, so.ScipyOptimizer(fit_s, method=method, tol=1e-6))(g)
            except Exception as e:  # noqa
                seqv.append("local optimisation of the simplifying %s raised %r (%s)" % (eq_text, e, method))
                continue
            n_expr = int(np.count_nonzero(np.asarray(g._simplified_command_array)[:, 0] == 1))
            n_stored = len(g.constants)
            if n_stored != n_expr or g.get_number_local_optimization_params() != n_expr:
                seqv.append("simplifying equation %s after local optimisation (%s): %d constants stored, the parameter count says %d, "
                            "its simplified expression %s has %d" % (eq_text, method, n_stored, g.get_number_local_optimization_params(),
                                                                      str(g), n_expr))
    return dict(results=results, sequences=dict(runs=seqn, viol=seqv))


def check(rep, proof):
    rng = random.Random(rep.seed)
    n = 90 if rep.tier == "quick" else 2500
    cases = []
    methods = ["lm", "BFGS", "Nelder-Mead", "Powell", "CG", "L-BFGS-B", "TNC", "SLSQP"]
    for i in range(n):
        eq = rng.randrange(6)
        pts = rng.choice([3, 8, 12]) if eq != 5 else rng.choice([3, 8])      # 4 constants, 3 points: lm rejects the shape -> BFGS fallback
        cases.append(dict(kind=0, seed=rng.randrange(10 ** 6), eq=eq, method=methods[i % 8],
                          metric=rng.choice(["mae", "mse", "rmse"]), needs=rng.random() < 0.8, points=pts,
                          stale=rng.choice([0, 0, 1, 2])))
    for i in range(16 if rep.tier == "quick" else 160):     # zero constants but a pending optimisation request, every method
        cases.append(dict(kind=0, seed=rng.randrange(10 ** 6), eq=6 + i % 2, method=methods[(i // 2) % 8],
                          metric=rng.choice(["mae", "mse", "rmse"]), needs=True, points=8, stale=0))
    for i in range(8 if rep.tier == "quick" else 80):       # residual non-finite for every choice of the constants, every method
        cases.append(dict(kind=0, seed=rng.randrange(10 ** 6), eq=8, method=methods[i % 8],
                          metric=rng.choice(["mae", "mse", "rmse"]), needs=True, points=8, stale=0))
    for i in range(6 if rep.tier == "quick" else 60):      # more constants than data points: lm raises TypeError -> BFGS fallback
        cases.append(dict(kind=0, seed=rng.randrange(10 ** 6), eq=5, method="lm", metric="mse", needs=True, points=3))
    for i in range(400 if rep.tier == "quick" else 20000):
        k = rng.randint(1, 7)
        cases.append(dict(kind=1, fits=[[rng.choice([None, None, 1, 2, 3, 3, 5, 8]), [j, rng.randint(0, 9)]] for j in range(k)],
                          fits2=[[rng.choice([None, 1, 2, 3, 4, 5, 8, 9]), [10 + j, rng.randint(0, 9)]] for j in range(rng.randint(1, 3))]))
    rc, res, out, wall = vlib.run_impl("c06", dict(cases=cases, seed=rep.seed, shrink_methods=methods if rep.tier == "quick" else methods * 6),
                                       timeout=3400)
    if res is None:
        rep.violation("implementation harness crashed", dict(relation="corr_C06_localopt", log=out[-3000:]), has_input=False)
        return
    results, seqs = res["results"], res["sequences"]
    oracle_bad = [r for r in results if r["viol"]]
    pairs = [(coq_case(r["case"]), r["out"]) for r in results]
    bad, log = vlib.coq_compare("c06", HEADER, RUNNER, pairs)
    lo = [r for r in results if r["case"]["kind"] == 0]
    rep.coverage.update(
        evaluations=len(results),
        distinct_nontrivial=len({repr(r["case"]) for r in results}),
        rule="real LocalOptFitnessFunction + ScipyOptimizer on 8 equations (0-4 constants, one that produces NaN residuals, two that "
             "hold no constant but request optimisation) x 8 scipy "
             "methods x 3 metrics with scipy.optimize wrapped to record trial vectors / results / TypeError (3 data points with 4 "
             "constants force the lm -> BFGS fallback); the recorded oracle is replayed through Model/LocalOpt.v; the returned float is "
             "compared bit-for-bit with an independent base-fitness evaluation of the final constants; half the individuals arrive with a "
             "fitness already stored for other constants (set by hand, or by an earlier call of the same wrapper); EquationRegressor.fit is driven "
             "with scripted fitness sequences (NaN, ties) and compared with the model's best-of-retries bookkeeping",
        samples=[lo[0]["case"], lo[0]["meta"]] if lo else [],
        correspondence=dict(cases=len(results), disagreements=len(bad)),
        oracle_violations=len(oracle_bad) + len(seqs["viol"]),
        shrink_sequences=dict(runs=seqs["runs"], violations=len(seqs["viol"])),
        distribution=dict(wrapper_calls=len(lo), fallbacks=sum(1 for r in lo if r["meta"].get("fallback")),
                          not_requested=sum(1 for r in lo if not r["case"]["needs"]),
                          stored_fitness_beforehand=sum(1 for r in lo if r["meta"].get("stale")),
                          regressor_sequences=len(results) - len(lo)),
    )
    rep.assumptions += [
        "scipy is an oracle (any trial sequence / final vector / TypeError); that it returns a vector of the length it was given is assumed",
        "the lazy _update of AGraph (constant count vs simplified expression) is C18's business",
    ]
    if oracle_bad:
        r = oracle_bad[0]
        rep.violation("; ".join(r["viol"][:3]), dict(case=r["case"], meta=r["meta"], oracle=r["viol"]))
    elif seqs["viol"]:
        rep.violation(seqs["viol"][0], dict(kind="optimise, lose a constant through a stack edit, optimise again", oracle=seqs["viol"][:4],
                                            how="tools/props/c06.py impl_main (seed %d)" % rep.seed))
    elif bad:
        first = bad[0]
        j = None if isinstance(first, tuple) else first
        mo = None if j is None else vlib.coq_eval_one(HEADER, "%s %s" % (RUNNER, pairs[j][0]))
        rep.violation("model and implementation disagree; property oracle found no failing input",
                      dict(relation="corr_C06_localopt (Model/LocalOpt.v vs LocalOptFitnessFunction/ScipyOptimizer/EquationRegressor)",
                           case=None if j is None else results[j]["case"], implementation=None if j is None else results[j]["out"],
                           model=mo, disagreements=len(bad), log=log[-1500:]), has_input=False)
    if not proof["ok"] and not rep.violations:
        rep.violation("proof obligation no longer checks: %s" % proof["broken"],
                      dict(theorem=proof["broken"], log=proof["log"][-3000:]), has_input=False)

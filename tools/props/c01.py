"""C01 (and shared generators for C02): evaluation returns the value of the expression the stack encodes.
Streams: (a) symbolic - the REAL numpy backend runs on dtype=object arrays of symbolic values and must produce exactly the term
the model produces over the free term algebra; (b) integer - polynomial stacks incl. integer-only sub-expressions, exact in
float64; (c) get_utilized_commands / reduce_stack as integer lists; (d) exception path / output shape; oracle: independent
recursive float evaluator."""
import math
import random

import vlib

NODES = dict(INTEGER=-1, VARIABLE=0, CONSTANT=1, ADDITION=2, SUBTRACTION=3, MULTIPLICATION=4, DIVISION=5, SIN=6, COS=7,
             EXPONENTIAL=8, LOGARITHM=9, POWER=10, ABS=11, SQRT=12, SAFE_POWER=13, SINH=14, COSH=15)
ARITY2 = {2, 3, 4, 5, 10, 13}
UNARY = {6, 7, 8, 9, 11, 12, 14, 15}

HEADER = """From Bingo Require Import Lib.Alg Gen.OpDefs Gen.OpEval Model.Stack Model.TermAlg.
From Coq Require Import ZArith List Bool.
Import ListNotations.
Open Scope Z_scope.
Definition mkstack (l : list (Z * Z * Z)) : stack := l.
Definition run_sym (s : stack) (M : Z) : list Z :=
  flat_map (fun r => (-7777) :: enc_tm (root term_alg s (fun k => TX r k) (fun k => TC k))) (map Z.of_nat (seq 0 (Z.to_nat M))).
Definition run_int (s : stack) (X : list (list Z)) (c : list Z) : list Z :=
  map (fun row => root z_alg s (fun k => nth (Z.to_nat k) row 0) (fun k => nth (Z.to_nat k) c 0)) X.
Definition run_util (s : stack) : list Z :=
  map (fun b : bool => if b then 1 else 0) (utilized s) ++ [(-7777)] ++ flat_map (fun c => [node_of c; p1_of c; p2_of c]) (reduce_stack s).
Definition runner (c : Z * list (Z * Z * Z) * Z * list (list Z) * list Z) : list Z :=
  let '(kind, s, M, X, cs) := c in
  if kind =? 0 then run_sym s M else if kind =? 1 then run_int s X cs else run_util s."""
RUNNER = "runner"


def gen_stack(rng, n, D, L, ops, symbolic_only=False, int_values=(0, 1, 2, 3, -1, -2, 5)):
    """well-formed stack; with symbolic_only every operator row has a symbolic operand"""
    rows, sym = [], []
    for i in range(n):
        terminal = i == 0 or rng.random() < 0.3
        if not terminal and symbolic_only and not any(sym):
            terminal = True
        if terminal:
            k = rng.random()
            if k < 0.45 and D > 0:
                rows.append([0, rng.randrange(D), rng.randrange(D) if rng.random() < 0.5 else 0])
                sym.append(True)
            elif k < 0.75 and L > 0:
                j = rng.randrange(L)
                rows.append([1, j, j])
                sym.append(True)
            else:
                v = rng.choice(int_values)
                rows.append([-1, v, v])
                sym.append(False)
        else:
            op = rng.choice(ops)
            p1 = rng.randrange(i)
            p2 = rng.randrange(i)
            if symbolic_only:
                cand = [j for j in range(i) if sym[j]]
                if op in ARITY2:
                    if not (sym[p1] or sym[p2]):
                        p1 = rng.choice(cand)
                else:
                    p1 = rng.choice(cand)
            rows.append([op, p1, p2])
            sym.append(sym[p1] or (op in ARITY2 and sym[p2]))
    if symbolic_only and not sym[-1]:
        cand = [j for j in range(n) if sym[j]]
        if cand:
            rows.append([2, rng.choice(cand), n - 1])
        else:
            rows.append([0, 0, 0] if D > 0 else [1, 0, 0])
    return rows


def gen_case(rng):
    r = rng.random()
    allops = sorted(ARITY2 | UNARY)
    if r < 0.45:
        D, L = rng.randint(1, 3), rng.randint(0, 3)
        s = gen_stack(rng, rng.randint(1, 18), D, L, allops, symbolic_only=True)
        return dict(kind=0, stack=s, M=rng.randint(1, 3), D=D, L=L)
    if r < 0.8:
        D, L = rng.randint(0, 3), rng.randint(0, 3)
        big = tuple(rng.randint(-300, 300) for _ in range(3))
        s = gen_stack(rng, rng.randint(1, 14), D, L, [2, 3, 4, 4, 2], int_values=(0, 1, 2, 3, -1, -2, 7) + big)
        M = rng.randint(1, 4)
        X = [[rng.randint(-4, 4) for _ in range(D)] for _ in range(M)]
        cs = [rng.randint(-3, 3) for _ in range(L)]
        # the implementation computes in double precision, the model over Z: keep to stacks all of whose intermediate values are
        # integers below 2^53, where float arithmetic is exact (otherwise fall back to a small instance)
        def exact_ok():
            for xrow in (X or [[]]):
                vals = []
                for (n_, p1, p2) in s:
                    v = p1 if n_ == -1 else (xrow[p1] if n_ == 0 else (cs[p1] if n_ == 1 else
                        (vals[p1] + vals[p2] if n_ == 2 else (vals[p1] - vals[p2] if n_ == 3 else vals[p1] * vals[p2]))))
                    if abs(v) >= 2 ** 53:
                        return False
                    vals.append(v)
            return True
        for _ in range(6):
            if exact_ok():
                break
            s = gen_stack(rng, rng.randint(1, 6), D, L, [2, 3, 4], int_values=(0, 1, 2, 3, -1, -2, 7))
        else:
            s = [[-1, 1, 1]]
        return dict(kind=1, stack=s, M=M, D=D, L=L, X=X, cs=cs)
    D, L = 2, 2
    s = gen_stack(rng, rng.randint(1, 22), D, L, allops)
    return dict(kind=2, stack=s, M=1, D=D, L=L)


def coq_case(c):
    st = vlib.clist(c["stack"], lambda r: "(%s, %s, %s)" % (vlib.cz(r[0]), vlib.cz(r[1]), vlib.cz(r[2])))
    return "(%d, %s, %d, %s, %s)" % (c["kind"], st, c["M"], vlib.clist(c.get("X", []), vlib.clist), vlib.clist(c.get("cs", [])))


# ------------------------------------------------------------------ implementation side
def make_sym_class():
    import numpy as _np

    class Sym:
        def __init__(self, enc):
            self.enc = enc

        @staticmethod
        def lift(o):
            if isinstance(o, Sym):
                return o
            f = float(o)
            if f == 0.5:
                return Sym([1])
            if f != int(f):
                raise ValueError("non-integral float %r met a symbol" % (f,))
            return Sym([0, int(f)])

        def _b(self, op, o, swap=False):
            if isinstance(o, _np.ndarray):
                return NotImplemented
            a, b = (Sym.lift(o), self) if swap else (self, Sym.lift(o))
            return Sym([op] + a.enc + b.enc)

        def __add__(self, o): return self._b(2, o)
        def __radd__(self, o): return self._b(2, o, True)
        def __sub__(self, o): return self._b(3, o)
        def __rsub__(self, o): return self._b(3, o, True)
        def __mul__(self, o): return self._b(4, o)
        def __rmul__(self, o): return self._b(4, o, True)
        def __truediv__(self, o): return self._b(5, o)
        def __rtruediv__(self, o): return self._b(5, o, True)
        def __pow__(self, o): return self._b(6, o)
        def __rpow__(self, o): return self._b(6, o, True)
        def sin(self): return Sym([7] + self.enc)
        def cos(self): return Sym([8] + self.enc)
        def sinh(self): return Sym([9] + self.enc)
        def cosh(self): return Sym([10] + self.enc)
        def exp(self): return Sym([11] + self.enc)
        def log(self): return Sym([12] + self.enc)
        def __abs__(self): return Sym([13] + self.enc)
        def sqrt(self): return Sym([14] + self.enc)
        def sign(self): return Sym([15] + self.enc)
    return Sym


def ref_eval(stack, xrow, cs, info=None, dtype=None):
    """independent recursive float evaluator (oracle)"""
    import numpy as np
    memo = {}
    fl = np.float64 if dtype is None else dtype

    def ev(i):
        if i in memo:
            return memo[i]
        n, p1, p2 = stack[i]
        with np.errstate(all="ignore"):
            if n == -1:
                v = fl(p1)
            elif n == 0:
                v = fl(xrow[p1])
            elif n == 1:
                v = fl(cs[p1])
            elif n in ARITY2:
                a, b = ev(p1), ev(p2)
                v = {2: lambda: a + b, 3: lambda: a - b, 4: lambda: a * b, 5: lambda: np.divide(a, b),
                     10: lambda: np.power(a, b), 13: lambda: np.power(np.abs(a), b)}[n]()
            else:
                a = ev(p1)
                v = {6: np.sin, 7: np.cos, 8: np.exp, 9: lambda t: np.log(np.abs(t)), 11: np.abs,
                     12: lambda t: np.sqrt(np.abs(t)), 14: np.sinh, 15: np.cosh}[n](a)
        memo[i] = v
        return v
    out = ev(len(stack) - 1)
    if info is not None:
        # were all sub-expressions the result depends on finite real numbers?
        info["all_finite"] = all(math.isfinite(float(v)) for v in memo.values())
    return out


def impl_main(payload):
    import warnings
    import numpy as np
    from bingo.symbolic_regression.agraph.evaluation_backend import evaluation_backend as eb
    from bingo.symbolic_regression.agraph.simplification_backend import simplification_backend as sb
    from bingo.symbolic_regression.agraph.agraph import AGraph
    Sym = make_sym_class()
    warnings.simplefilter("ignore")
    results = []
    rs = np.random.RandomState(payload["seed"] % (2 ** 31))
    for c in payload["cases"]:
        st = np.array(c["stack"], dtype=int).reshape(-1, 3)
        viol, out = [], []
        try:
            if c["kind"] == 0:
                M, D, L = c["M"], c["D"], c["L"]
                x = np.empty((M, D), dtype=object)
                for r in range(M):
                    for k in range(D):
                        x[r, k] = Sym([20, r, k])
                consts = tuple(Sym([21, j]) for j in range(L))
                res = eb.evaluate(st, x, consts)
                res = np.asarray(res, dtype=object)
                if res.shape != (M, 1):
                    viol.append("evaluate returned shape %r for %d data rows" % (res.shape, M))
                for r in range(M):
                    v = res.reshape(-1)[r] if res.size == M else res.reshape(-1)[0]
                    enc = Sym.lift(v).enc
                    # _reshape_output turns a scalar result (no utilized row loads X) into np.ones(...) * scalar: drop that
                    # factor 1.0 - and only that one (a root command 1 * f(X) keeps its factor)
                    scalar_result = not any(u and int(row[0]) == 0 for u, row in zip(sb.get_utilized_commands(st), st))
                    if scalar_result and enc[:3] == [4, 0, 1]:
                        enc = enc[3:]
                    out += [-7777] + enc
            elif c["kind"] == 1:
                x = np.array(c["X"], dtype=float).reshape(c["M"], c["D"])
                cs = tuple(float(v) for v in c["cs"])
                res = eb.evaluate(st, x, cs)
                if np.asarray(res).shape != (c["M"], 1):
                    viol.append("evaluate returned shape %r for %d data rows" % (np.asarray(res).shape, c["M"]))
                out = [int(v) for v in np.asarray(res, dtype=float).reshape(-1)]
                g = AGraph()
                g.command_array = st
                g.set_local_optimization_params(cs)
                g._needs_opt = False
                if len(cs) == sum(1 for row in sb.reduce_stack(st) if row[0] == 1) or True:
                    pass
            else:
                util = sb.get_utilized_commands(st)
                red = sb.reduce_stack(st)
                out = [1 if b else 0 for b in util] + [-7777] + [int(v) for v in red.reshape(-1)]
                if len(red) != sum(1 for b in util if b):
                    viol.append("reduce_stack returned %d commands, %d are utilized" % (len(red), sum(util)))
        except Exception as e:  # noqa
            out = [-3]
            viol.append("raised %r on a well-formed stack" % (e,))
        results.append(dict(out=out, viol=viol))

    # ---------------- search: cases on which model and implementation disagreed are re-run numerically against the
    # independent evaluator to obtain a concrete failing input of the PROPERTY
    recheck = []
    for c in payload.get("recheck", []):
        st = np.array(c["stack"], dtype=int).reshape(-1, 3)
        D, L = max(c["D"], 1), c["L"]
        if c["kind"] == 1:
            x = np.array(c["X"], dtype=float).reshape(c["M"], c["D"]) if c["D"] else np.zeros((c["M"], 1))
            cs = [float(v) for v in c["cs"]]
        else:
            x = rs.uniform(-2, 2, size=(3, D))
            cs = rs.uniform(-2, 2, size=max(L, 1)).tolist()
        try:
            got = np.asarray(eb.evaluate(st, x, tuple(cs)), dtype=float).reshape(-1)
        except Exception as e:  # noqa
            recheck.append("evaluate raised %r on stack %r" % (e, c["stack"]))
            continue
        for r in range(x.shape[0]):
            want = float(ref_eval(c["stack"], x[r], cs))
            gv = float(got[r]) if got.size > r else float(got[0])
            if math.isfinite(want) and not (abs(gv - want) <= 1e-9 * (1 + abs(want))):
                recheck.append("stack %r at x=%r constants %r evaluates to %r, the expression it encodes has value %r"
                               % (c["stack"], x[r].tolist(), cs, gv, want))
                break
    if payload.get("recheck"):
        return dict(recheck=recheck)
    # ---------------- oracle: AGraph.evaluate_equation_at against an independent recursive evaluator on float data
    orc = dict(checks=0, viol=[], nonfinite=0, samples=[])
    rng = random.Random(payload["seed"] + 5)
    allops = sorted(ARITY2 | UNARY)
    for t in range(payload["oracle_runs"]):
        D = rng.randint(1, 3)
        n = rng.randint(1, 20)
        base = gen_stack(rng, n, D, 3, allops, int_values=(0, 1, 2, 3, -1, -2, 5, 13, 26, 40, rng.randint(-200, 200)))
        M = rng.randint(1, 5)
        x = rs.uniform(-3, 3, size=(M, D))
        if rng.random() < 0.3:
            x[rng.randrange(M), rng.randrange(D)] = 0.0
        g = AGraph()
        g.command_array = np.array(base, dtype=int)
        try:
            L = g.get_number_local_optimization_params()
        except Exception as e:  # noqa
            orc["viol"].append("querying the constant count of the well-formed stack %r raised %r" % (base, e))
            continue
        cs = rs.uniform(-2, 2, size=L)
        g.set_local_optimization_params(cs)
        try:
            got = g.evaluate_equation_at(x)
        except Exception as e:  # noqa
            orc["viol"].append("evaluate_equation_at raised %r for stack %r" % (e, base))
            continue
        orc["checks"] += 1
        if np.asarray(got).shape != (M, 1):
            orc["viol"].append("evaluate_equation_at returned shape %r, expected (%d, 1); stack %r" % (np.asarray(got).shape, M, base))
            continue
        # constants are renumbered in stack order of the utilized CONSTANT rows
        util = sb.get_utilized_commands(np.array(base, dtype=int))
        cmap, k = {}, 0
        for i, row in enumerate(base):
            if util[i] and row[0] == 1:
                cmap[i] = k
                k += 1
        st2 = [list(r) for r in base]
        for i, j in cmap.items():
            st2[i] = [1, j, j]
        for r in range(M):
            info = {}
            want = ref_eval(st2, x[r], cs, info)
            gv = float(np.asarray(got).reshape(-1)[r])
            if math.isfinite(want) and not info["all_finite"]:
                # a sub-expression is undefined / overflows (e.g. 13/0), so the expression has no real value here; IEEE
                # propagation may still end in a finite number (x/inf = 0).  The property asks for a non-finite entry, the
                # IEEE value is tolerated, anything else is an arbitrary finite number
                orc["nonfinite"] += 1
                if math.isfinite(gv) and not (abs(gv - want) <= 1e-9 * (1 + abs(want))):
                    orc["viol"].append("a sub-expression is undefined at %r; evaluation returned %r, neither non-finite nor the IEEE value %r; stack %r"
                                       % (x[r].tolist(), gv, float(want), base))
            elif not math.isfinite(want):
                orc["nonfinite"] += 1
                if math.isfinite(gv):
                    orc["viol"].append("expression is undefined/overflows at %r (reference %r) but evaluation returned the finite number %r; stack %r"
                                       % (x[r].tolist(), want, gv, base))
            elif not (abs(gv - want) <= 1e-9 * (1 + abs(want))):
                orc["viol"].append("value at %r is %r, the expression denotes %r; stack %r constants %r"
                                   % (x[r].tolist(), gv, float(want), base, cs.tolist()))
        # the SAME array object, refilled in place (a pre-allocated batch buffer), is new data: the result follows the contents
        x_saved = x.copy()
        x *= -0.75
        x += 0.125
        try:
            got_b = np.asarray(g.evaluate_equation_at(x), dtype=float).reshape(-1)
            for r in range(M):
                info = {}
                want = float(ref_eval(st2, x[r], cs, info))
                if info["all_finite"] and math.isfinite(want) and not (abs(got_b[r] - want) <= 1e-9 * (1 + abs(want))):
                    orc["viol"].append("after the data array was refilled in place, the value at %r is %r, the expression denotes %r "
                                       "(the previous contents gave %r); stack %r" % (x[r].tolist(), float(got_b[r]), want,
                                                                                     float(np.asarray(got).reshape(-1)[r]), base))
                    break
        except Exception as e:  # noqa
            orc["viol"].append("evaluate_equation_at raised %r on the refilled array for stack %r" % (e, base))
        x[...] = x_saved
        # rows the last command does not depend on never influence the result
        if any(not u for u in util):
            st3 = [list(r) for r in base]
            for i in range(len(st3)):
                if not util[i]:
                    st3[i] = [rng.choice(allops), rng.randrange(max(i, 1)), rng.randrange(max(i, 1))] if i > 0 else [-1, 99, 99]
            g3 = AGraph()
            g3.command_array = np.array(st3, dtype=int)
            g3.set_local_optimization_params(cs)
            got3 = g3.evaluate_equation_at(x)
            if not np.array_equal(np.asarray(got), np.asarray(got3), equal_nan=True):
                orc["viol"].append("changing commands the result does not depend on changed the result; stack %r vs %r" % (base, st3))
        if len(orc["samples"]) < 2:
            orc["samples"].append(dict(stack=base, points=M))
    # exception path: integer-only division by zero
    g = AGraph()
    g.command_array = np.array([[-1, 1, 1], [-1, 0, 0], [5, 0, 1]], dtype=int)
    x = np.ones((3, 2))
    try:
        r = g.evaluate_equation_at(x)
    except Exception as e:  # noqa
        orc["viol"].append("1/0 from integer commands (stack [[-1,1,1],[-1,0,0],[5,0,1]]): evaluate_equation_at raised %r instead of "
                           "returning a (3, 1) NaN column" % (e,))
        r = np.full((3, 1), np.nan)
    if np.asarray(r).shape != (3, 1) or not np.all(np.isnan(r)):
        orc["viol"].append("1/0 from integer commands: evaluate_equation_at returned shape %r values %r, expected a (3, 1) NaN column"
                           % (np.asarray(r).shape, np.asarray(r).tolist()))
    # data-independent sub-expressions (integer commands, constants given as plain Python numbers): a power of a negative base
    # with a fractional exponent has no real value - the result must be NaN there, never a complex or a finite number
    for stack, consts, what in (
            ([[-1, -2, -2], [-1, 1, 1], [-1, 2, 2], [5, 1, 2], [10, 0, 3], [0, 0, 0], [2, 4, 5]], [], "(-2)^(1/2) + X_0"),
            ([[-1, -8, -8], [-1, 1, 1], [-1, 3, 3], [5, 1, 2], [10, 0, 3], [0, 0, 0], [4, 4, 5]], [], "(-8)^(1/3) * X_0"),
            ([[1, 0, 0], [1, 1, 1], [10, 0, 1], [0, 0, 0], [4, 2, 3]], [-3.0, 0.5], "(C_0^C_1) * X_0 with C = [-3.0, 0.5] as Python floats"),
            ([[1, 0, 0], [1, 1, 1], [10, 0, 1], [0, 0, 0], [2, 2, 3]], (-1.5, 2.5), "C_0^C_1 + X_0 with C = (-1.5, 2.5) as Python floats")):
        for op in (10, 13):           # POWER and SAFE_POWER (|a|^b: defined)
            st = [[op if r[0] == 10 else r[0], r[1], r[2]] for r in stack]
            g = AGraph()
            g.command_array = np.array(st, dtype=int)
            if consts:
                g.set_local_optimization_params(consts)
            x = np.array([[0.5], [2.0], [-1.0]])
            try:
                r = g.evaluate_equation_at(x)
            except Exception as e:  # noqa
                orc["viol"].append("evaluate_equation_at raised %r for %s (stack %r)" % (e, what, st))
                continue
            orc["checks"] += 1
            r = np.asarray(r)
            want = [ref_eval(st, x[k], list(consts)) for k in range(3)]
            if np.iscomplexobj(r) or r.shape != (3, 1):
                orc["viol"].append("%s (stack %r, command %d): evaluation returned dtype %s shape %r values %r; the real expression has values %r"
                                   % (what, st, op, r.dtype, r.shape, r.reshape(-1).tolist(), want))
                continue
            for k in range(3):
                gv = float(r[k, 0])
                if (math.isnan(want[k]) and not math.isnan(gv)) or (math.isfinite(want[k]) and not abs(gv - want[k]) <= 1e-9 * (1 + abs(want[k]))):
                    orc["viol"].append("%s (stack %r, command %d) at x=%r: evaluation returned %r, the real expression has value %r"
                                       % (what, st, op, x[k].tolist(), gv, want[k]))
                    break
    return dict(results=results, oracle=orc)


def check(rep, proof):
    rng = random.Random(rep.seed)
    n = 1500 if rep.tier == "quick" else 40000
    cases = [gen_case(rng) for _ in range(n)]
    rc, res, out, wall = vlib.run_impl("c01", dict(cases=cases, seed=rep.seed, oracle_runs=400 if rep.tier == "quick" else 15000),
                                       timeout=3400)
    if res is None:
        rep.violation("implementation harness crashed", dict(relation="corr_C01_eval", log=out[-3000:]), has_input=False)
        return
    results, orc = res["results"], res["oracle"]
    oracle_bad = [(i, r["viol"]) for i, r in enumerate(results) if r["viol"]]
    pairs = [(coq_case(c), r["out"]) for c, r in zip(cases, results)]
    bad, log = vlib.coq_compare("c01", HEADER, RUNNER, pairs, shard=250)
    rep.coverage.update(
        evaluations=len(cases) + orc["checks"],
        distinct_nontrivial=len({repr(c["stack"]) for c in cases if len(c["stack"]) >= 3}),
        rule="random well-formed stacks (1-22 rows, all 17 node types, sharing, unused rows, unary rows with arbitrary p2, integer "
             "rows incl. negative/large): (a) the real evaluation_backend.evaluate on dtype=object arrays of symbolic values vs the "
             "model over the free term algebra - identical terms; (b) polynomial stacks on small-integer data vs the model over Z; "
             "(c) get_utilized_commands / reduce_stack as integer lists; oracle: AGraph.evaluate_equation_at vs an independent "
             "recursive evaluator on float data (value, non-finite where undefined, independence from unused rows, (M,1) shape, "
             "NaN column on ZeroDivisionError)",
        samples=[cases[0]] + orc["samples"][:1],
        correspondence=dict(cases=len(cases), disagreements=len(bad),
                            symbolic=sum(c["kind"] == 0 for c in cases), integer=sum(c["kind"] == 1 for c in cases),
                            utilized_reduce=sum(c["kind"] == 2 for c in cases)),
        oracle=dict(checks=orc["checks"], points_where_reference_is_nonfinite=orc["nonfinite"], violations=len(orc["viol"])),
        oracle_violations=len(oracle_bad) + len(orc["viol"]),
    )
    rep.assumptions += [
        "numpy/libm elementwise semantics, IEEE rounding and overflow are NOT modelled: the theorem says the value is the "
        "operator-by-operator composition the stack denotes, over any algebra (hence also over IEEE doubles)",
        "translator tr_opeval.py (17 forward rules, node tables) is trusted; its output is what the theorems are about",
        "symbolic stream: every operator row has a symbolic operand (a pure-integer sub-expression is folded numerically by "
        "CPython and is covered by the integer stream); the factor 1.0 of _reshape_output is dropped before comparing",
    ]
    if oracle_bad:
        i, v = oracle_bad[0]
        rep.violation("; ".join(v[:3]), dict(case=cases[i], observed=results[i]["out"][:60], oracle=v))
    elif orc["viol"]:
        rep.violation(orc["viol"][0], dict(kind="independent-evaluator oracle", detail=orc["viol"][:4],
                                           how="tools/props/c01.py impl_main oracle (seed %d)" % rep.seed))
    elif bad:
        first = bad[0]
        j = None if isinstance(first, tuple) else first
        again = [cases[b] for b in bad if not isinstance(b, tuple) and cases[b]["kind"] in (0, 1)][:40]
        found = []
        if again:
            rc2, res2, out2, _ = vlib.run_impl("c01", dict(cases=[], recheck=again, seed=rep.seed, oracle_runs=0), timeout=600)
            found = (res2 or {}).get("recheck", [])
        if found:
            rep.violation(found[0], dict(kind="disagreeing case re-run against the independent evaluator", detail=found[:4]))
            return
        mo = None if j is None else vlib.coq_eval_one(HEADER, "%s %s" % (RUNNER, pairs[j][0]))
        rep.violation("model and implementation disagree; property oracle found no failing input",
                      dict(relation="corr_C01_eval (Model/Stack.v + Gen/OpEval.v vs evaluation_backend / simplification_backend)",
                           case=None if j is None else cases[j], implementation=None if j is None else results[j]["out"][:80],
                           model=None if mo is None else mo[:80], disagreements=len(bad), log=log[-1500:]), has_input=False)
    if not proof["ok"] and not rep.violations:
        rep.violation("proof obligation no longer checks: %s" % proof["broken"],
                      dict(theorem=proof["broken"], log=proof["log"][-3000:]), has_input=False)

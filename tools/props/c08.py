"""C08: selection operators.  Tape-replay correspondence with Model/Selection.v + property oracle."""
import math
import random

import vlib

HEADER = "From Bingo Require Import Model.Selection Model.SelectionProb."
INF = 10 ** 6
# case = (kind, sel_size, pop [(id, age, fit)], target, tape [[nat]], close [bool], picks [nat], coins [option bool])
RUNNER = (
    "(fun c : Z * nat * list (nat * Z * option Z) * nat * list (list nat) * list bool * list nat * list (option bool) => "
    "let '(k, sz, p, tg, tape, close, picks, coins) := c in "
    "let pop := map (fun t => let '(i, a, f) := t in mkInd i a f) p in "
    "if (k =? 0)%Z then enc_out (fun r => Z.of_nat (length (fst r)) :: enc_ids (fst r) ++ enc_ids (snd r)) (age_fitness sz pop tg tape) "
    "else if (k =? 1)%Z then enc_out (map Z.of_nat) (tournament sz pop tg tape) "
    "else if (k =? 2)%Z then enc_out enc_ids (crowding pop tg close) "
    "else if (k =? 3)%Z then enc_out (map Z.of_nat) (ptournament sz pop tg (combine tape picks)) "
    "else enc_out enc_ids (pcrowding pop tg close coins))")


def gen_fit(rng, nan_p=0.2):
    r = rng.random()
    if r < nan_p:
        return None
    if r < nan_p + 0.04:
        return INF
    if r < nan_p + 0.08:
        return -INF
    return rng.randint(0, 3)


def gen_prob_fit(rng, logscale):
    """fitness for the probabilistic operators: NaN-heavy; in log scale anything (infinities included), otherwise
    an evidence >= 0 (zero included) and now and then a negative one (outside the operator's domain: it may raise)"""
    r = rng.random()
    if r < 0.3:
        return None
    if logscale:
        return INF if r < 0.34 else (-INF if r < 0.38 else rng.randint(-3, 3))
    return rng.randint(-2, -1) if r < 0.33 else rng.randint(0, 3)


def gen_case(rng):
    kind = rng.choice([0, 0, 0, 0, 0, 0, 1, 1, 2, 2, 3, 4])
    if kind == 3:
        n, logscale = rng.randint(0, 8), rng.random() < 0.6
        pop = [[i, 0, gen_prob_fit(rng, logscale)] for i in range(n)]
        return dict(kind=3, sel=rng.randint(1, 5), pop=pop, target=rng.randint(0, 6), logscale=logscale,
                    negative=rng.random() < 0.3)
    if kind == 4:
        h, logscale = rng.randint(0, 5), rng.random() < 0.6
        n = 2 * h + (1 if rng.random() < 0.1 else 0)
        pop = [[i, 0, gen_prob_fit(rng, logscale), rng.randint(0, 6)] for i in range(n)]
        target = rng.choice([0, 2, 4, 6, 8, 1, 3]) if rng.random() < 0.5 else 2 * rng.randint(0, h)
        return dict(kind=4, sel=0, pop=pop, target=target, logscale=logscale, negative=rng.random() < 0.3,
                    npfloat=rng.random() < 0.5)
    if kind == 0 and rng.random() < 0.012:
        # a large population with a large comparison group (the samplers differ with the group size and could with the population's)
        n = rng.randint(105, 150)
        pop = [[i, rng.randint(0, 40), gen_fit(rng, 0.05)] for i in range(n)]
        return dict(kind=0, sel=rng.choice([5, 6, 7]), pop=pop, target=rng.randint(n // 3, n - 1))
    if kind == 0:
        n = rng.randint(0, 14)
        pop = [[i, rng.randint(0, 2), gen_fit(rng)] for i in range(n)]
        if n >= 2 and rng.random() < 0.2:          # the same object twice
            pop[rng.randrange(n)] = list(pop[rng.randrange(n)])
        sel = rng.choice([2, 2, 3, 4, 5, 6, 7])
        target = rng.randint(0, n + 1) if rng.random() < 0.9 else n + 2
        return dict(kind=0, sel=sel, pop=pop, target=target)
    if kind == 1:
        n = rng.randint(0, 10)
        pop = [[i, 0, gen_fit(rng, 0.3)] for i in range(n)]
        sel = rng.randint(1, 5)
        return dict(kind=1, sel=sel, pop=pop, target=rng.randint(0, 6))
    h = rng.randint(0, 5)
    n = 2 * h + (1 if rng.random() < 0.1 else 0)
    pop = [[i, 0, gen_fit(rng, 0.25), rng.randint(0, 6)] for i in range(n)]
    target = rng.choice([0, 2, 4, 6, 8, 1, 3]) if rng.random() < 0.5 else 2 * rng.randint(0, h)
    return dict(kind=2, sel=0, pop=pop, target=target)


def exhaustive_cases():
    import itertools
    out = []
    vals = [(0, 1), (0, 2), (1, 1), (1, None), (0, None)]
    for n in range(0, 5):
        for t in itertools.product(vals, repeat=n):
            for target in range(0, n + 1):
                for sel in (2, 3):
                    out.append(dict(kind=0, sel=sel, pop=[[i, a, f] for i, (a, f) in enumerate(t)], target=target))
    return out


def coq_case(c, tape, close, picks=(), coins=()):
    def ind(t):
        return "(%d%%nat, %s, %s)" % (t[0], vlib.cz(t[1]), vlib.copt(t[2]))
    nat = lambda x: "%d%%nat" % x  # noqa
    return "(%d, %s, %s, %s, %s, %s, %s, %s)" % (
        c["kind"], nat(c["sel"]), vlib.clist(c["pop"], ind), nat(c["target"]),
        vlib.clist(tape, lambda cell: vlib.clist(cell, nat)), vlib.clist(close, vlib.cbool),
        vlib.clist(list(picks), nat), vlib.clist(list(coins), lambda b: vlib.copt(b, vlib.cbool)))


# ------------------------------------------------------------------ implementation side
def impl_main(payload):
    import numpy as np
    from bingo.selection.age_fitness import AgeFitness
    from bingo.selection.tournament import Tournament
    from bingo.selection.deterministic_crowding import DeterministicCrowding
    from bingo.selection.probabilistic_tournament import ProbabilisticTournament
    from bingo.selection.probabilistic_crowding import ProbabilisticCrowding
    import warnings
    warnings.simplefilter("ignore")

    def fl(v):
        return float("nan") if v is None else (float("inf") if v == INF else (float("-inf") if v == -INF else float(v)))

    class Ind:
        def __init__(self, tag, age, fit, vec=0):
            self.tag, self.genetic_age, self.fitness, self.vec = tag, age, fl(fit), vec
            self.is_copy = False

        def copy(self):
            c = Ind(self.tag, self.genetic_age, None, self.vec)
            c.fitness = self.fitness
            c.is_copy = True
            return c

        def distance(self, other):
            return abs(self.vec - other.vec)

    tape = []
    orig_uri = AgeFitness._get_unique_rand_indices

    def rec_uri(self, max_int):
        r = orig_uri(self, max_int)
        if self._selection_size < max_int:
            tape.append([int(i) for i in r])
        return r
    AgeFitness._get_unique_rand_indices = rec_uri

    real_choice = np.random.choice

    def rec_choice(a, size=None, replace=True, p=None):
        if isinstance(a, (list, np.ndarray)) and not isinstance(a, int):
            idx = real_choice(len(a), size, replace=replace, p=p)
            tape.append([int(i) for i in np.atleast_1d(idx)])
            arr = np.empty(len(a), dtype=object)
            for i, o in enumerate(a):
                arr[i] = o
            return arr[idx]
        return real_choice(a, size, replace=replace, p=p)

    def dominated_by(d, s):
        return s.genetic_age <= d.genetic_age and s.fitness <= d.fitness

    results = []
    for ci, c in enumerate(payload["cases"]):
        del tape[:]
        np.random.seed((payload["seed"] + ci) % (2 ** 31))
        viol, close, picks, coins = [], [], [], []
        objs = {}
        pop = []
        for t in c["pop"]:
            if t[0] not in objs:
                objs[t[0]] = Ind(t[0], t[1], t[2], t[3] if len(t) > 3 else 0)
            pop.append(objs[t[0]])
        before = list(pop)
        try:
            if c["kind"] == 0:
                ret = AgeFitness(selection_size=c["sel"])(pop, c["target"])
                out = [0, len(ret)] + [p.tag for p in ret] + [p.tag for p in pop]
                if sorted(map(id, pop)) != sorted(map(id, before)):
                    viol.append("caller's population is no longer a permutation of the input")
                if any(not any(r is b for b in before) for r in ret):
                    viol.append("returned individual is not a member of the input")
                if not (c["target"] <= len(ret) <= len(before)):
                    viol.append("returned %d individuals, target %d, input %d" % (len(ret), c["target"], len(before)))
                if len(set(map(id, before))) == len(before):
                    dropped = [b for b in before if not any(b is r for r in ret)]
                    if len(dropped) + len(ret) != len(before):
                        viol.append("returned list has duplicates or strangers")
                    for d in dropped:
                        if not (math.isnan(d.fitness) or any(dominated_by(d, s) for s in ret)):
                            viol.append("removed individual (age %r, fitness %r) is neither NaN nor dominated by a survivor"
                                        % (d.genetic_age, d.fitness))
                            break
                for cell in tape:
                    if len(set(cell)) != len(cell) or len(cell) != c["sel"]:
                        viol.append("index sample is not %d distinct indices: %r" % (c["sel"], cell))
            elif c["kind"] == 1:
                np.random.choice = rec_choice
                try:
                    ret = Tournament(c["sel"])(pop, c["target"])
                finally:
                    np.random.choice = real_choice
                out = [0] + [p.tag for p in ret]
                if len(ret) != c["target"]:
                    viol.append("tournament returned %d, target %d" % (len(ret), c["target"]))
                for w, cell in zip(ret, tape):
                    members = [before[i] for i in cell]
                    if any(w is b for b in before) or not w.is_copy:
                        viol.append("tournament winner is not a copy")
                    if not any(m.tag == w.tag for m in members):
                        viol.append("tournament winner is not a member of its tournament")
                    nn = [m.fitness for m in members if not math.isnan(m.fitness)]
                    if (math.isnan(w.fitness) and nn) or any(x < w.fitness for x in nn):
                        viol.append("tournament winner (fitness %r) is not a least-fitness member of %r"
                                    % (w.fitness, [m.fitness for m in members]))
            elif c["kind"] == 3:
                real_ss = np.searchsorted

                def rec_ss(a, v, *args, **kw):
                    k = real_ss(a, v, *args, **kw)
                    picks[-1] = int(k)
                    return k

                def rec_choice3(a, size=None, replace=True, p=None):
                    picks.append(0)
                    return rec_choice(a, size, replace=replace, p=p)
                np.random.choice, np.searchsorted = rec_choice3, rec_ss
                try:
                    ret = ProbabilisticTournament(c["sel"], c["logscale"], c["negative"])(pop, c["target"])
                finally:
                    np.random.choice, np.searchsorted = real_choice, real_ss
                out = [0] + [p.tag for p in ret]
                if len(ret) != c["target"]:
                    viol.append("probabilistic tournament returned %d, target %d" % (len(ret), c["target"]))
                for w, cell in zip(ret, tape):
                    members = [before[i] for i in cell]
                    if any(w is b for b in before) or not w.is_copy:
                        viol.append("probabilistic tournament winner is not a copy")
                    if not any(m.tag == w.tag for m in members):
                        viol.append("probabilistic tournament winner is not a member of its tournament")
                    if len(set(cell)) != len(cell) or len(cell) != c["sel"]:
                        viol.append("tournament sample is not %d distinct members: %r" % (c["sel"], cell))
            elif c["kind"] == 4:
                if c.get("npfloat"):
                    for o in pop:
                        o.fitness = np.float64(o.fitness)
                h = len(pop) // 2
                for i in range(c["target"] // 2):
                    if 2 * i + 1 < h:
                        p1, p2, c1, c2 = pop[2 * i], pop[2 * i + 1], pop[h + 2 * i], pop[h + 2 * i + 1]
                        close.append(p1.distance(c1) + p2.distance(c2) <= p1.distance(c2) + p2.distance(c1))
                orig_mf = ProbabilisticCrowding._return_most_fit

                def rec_mf(self, child, parent):
                    numeric = not (math.isnan(parent.fitness) or math.isnan(child.fitness))
                    try:
                        r = orig_mf(self, child, parent)
                    except Exception:
                        if numeric:
                            coins.append(None)
                        raise
                    if numeric:
                        coins.append(r is child)
                    return r
                ProbabilisticCrowding._return_most_fit = rec_mf
                try:
                    ret = ProbabilisticCrowding(c["logscale"], c["negative"])(pop, c["target"])
                finally:
                    ProbabilisticCrowding._return_most_fit = orig_mf
                out = [0] + [p.tag for p in ret]
                if len(ret) != c["target"]:
                    viol.append("probabilistic crowding returned %d, target %d" % (len(ret), c["target"]))
                if [id(x) for x in pop] != [id(x) for x in before]:
                    viol.append("probabilistic crowding changed the caller's list")
                for j, r in enumerate(ret):
                    par = before[j]
                    child = before[h + (j if close[j // 2] else (j ^ 1))]
                    if r is not par and r is not child:
                        viol.append("slot %d holds neither its parent nor its paired child" % j)
                    elif math.isnan(par.fitness) and r is not child:
                        viol.append("NaN parent of slot %d kept although it has a paired child" % j)
                    elif not math.isnan(par.fitness) and math.isnan(child.fitness) and r is not par:
                        viol.append("parent of slot %d (fitness %r) replaced by a NaN child" % (j, par.fitness))
            else:
                h = len(pop) // 2
                for i in range(c["target"] // 2):
                    if 2 * i + 1 < h:
                        p1, p2, c1, c2 = pop[2 * i], pop[2 * i + 1], pop[h + 2 * i], pop[h + 2 * i + 1]
                        close.append(p1.distance(c1) + p2.distance(c2) <= p1.distance(c2) + p2.distance(c1))
                ret = DeterministicCrowding()(pop, c["target"])
                out = [0] + [p.tag for p in ret]
                if len(ret) != c["target"]:
                    viol.append("crowding returned %d, target %d" % (len(ret), c["target"]))
                for j, r in enumerate(ret):
                    par = before[j]
                    cl = close[j // 2]
                    child = before[h + (j if cl else (j ^ 1))]
                    if r is par:
                        continue
                    if r is not child:
                        viol.append("slot %d holds neither its parent nor its paired child" % j)
                    elif not (math.isnan(par.fitness) or child.fitness < par.fitness):
                        viol.append("parent (fitness %r) replaced by a child that is not strictly better (%r)"
                                    % (par.fitness, child.fitness))
        except (ValueError, IndexError, ZeroDivisionError) as e:
            out = [1]
            legit = isinstance(e, ValueError)
            # the probabilistic operators without log scale read a fitness as an evidence >= 0: a negative weight
            # (or, for crowding, two zero evidences) is outside their domain and the float arithmetic may raise
            wts = [(-fl(t[2]) if c.get("negative") else fl(t[2])) for t in c["pop"] if t[2] is not None]
            out_of_domain = c["kind"] in (3, 4) and not c.get("logscale") and any(w <= 0 for w in wts)
            if c["kind"] == 0:
                legit = legit and c["target"] > len(before)
            elif c["kind"] == 1:
                legit = legit and c["sel"] > len(before) and c["target"] > 0
            elif c["kind"] == 3:
                legit = (legit and c["sel"] > len(before) and c["target"] > 0) or (
                    isinstance(e, IndexError) and out_of_domain and any(w < 0 for w in wts))
            elif c["kind"] == 4:
                legit = (legit and (len(before) % 2 or c["target"] % 2 or c["target"] > len(before) // 2)) or (
                    isinstance(e, ZeroDivisionError) and out_of_domain)
            else:
                legit = legit and (len(before) % 2 or c["target"] % 2 or c["target"] > len(before) // 2)
            if not legit:
                viol.append("selection raised %r on a legal call" % (e,))
        results.append(dict(out=out, viol=viol, tape=[list(t) for t in tape], close=close, picks=picks, coins=coins))
    AgeFitness._get_unique_rand_indices = orig_uri
    return dict(results=results)


def check(rep, proof):
    rng = random.Random(rep.seed)
    n = 3000 if rep.tier == "quick" else 60000
    exh = exhaustive_cases() if rep.tier == "thorough" else []
    cases = exh + [gen_case(rng) for _ in range(n)]
    rc, res, out, wall = vlib.run_impl("c08", dict(cases=cases, seed=rep.seed), timeout=3000)
    if res is None:
        rep.violation("implementation harness crashed", dict(relation="corr_C08_selection", log=out[-3000:]), has_input=False)
        return
    results = res["results"]
    oracle_bad = [(i, r["viol"]) for i, r in enumerate(results) if r["viol"]]
    pairs = [(coq_case(c, r["tape"], r["close"], r["picks"], r["coins"]), r["out"]) for c, r in zip(cases, results)]
    bad, log = vlib.coq_compare("c08", HEADER, RUNNER, pairs)
    rep.coverage.update(
        evaluations=len(cases),
        distinct_nontrivial=len({repr(c) for c in cases if len(c["pop"]) >= 3}),
        rule="age-fitness (sizes 0-14, selection sizes 2-7, all targets incl. 0 and > size, ties, duplicates, NaN, +-inf), "
             "tournament (sizes 1-5, NaN-heavy), deterministic crowding (odd sizes/targets, NaN), probabilistic tournament and "
             "probabilistic crowding (log scale with +-inf, evidence scale with zeros and out-of-domain negatives, both "
             "sign conventions, Python and numpy floats, NaN-heavy); each run's random draws are "
             "recorded and replayed through the Coq model; thorough adds all populations of <=4 over 5 (age,fitness) values x all "
             "targets x selection size 2,3; non-trivial = population of at least 3; distinct by case text",
        samples=[cases[len(exh)], cases[len(exh) + 1]],
        correspondence=dict(cases=len(cases), disagreements=len(bad), exhaustive_small_scope=len(exh)),
        oracle_violations=len(oracle_bad),
        distribution=dict(age_fitness=sum(c["kind"] == 0 for c in cases), tournament=sum(c["kind"] == 1 for c in cases),
                          crowding=sum(c["kind"] == 2 for c in cases),
                          probabilistic_tournament=sum(c["kind"] == 3 for c in cases),
                          probabilistic_crowding=sum(c["kind"] == 4 for c in cases),
                          searchsorted_picks=sum(len(r["picks"]) for r in results),
                          crowding_coins=sum(len(r["coins"]) for r in results), raised=sum(r["out"] == [1] for r in results),
                          tape_cells=sum(len(r["tape"]) for r in results)),
    )
    rep.assumptions += [
        "np.random.choice(list, k, replace=False) selects list[i] for the k distinct indices it draws (the harness records the indices)",
        "fitness / age order embedding into Z; for ProbabilisticTournament / ProbabilisticCrowding the float arithmetic is an "
        "oracle (the index np.searchsorted returned, whether _return_most_fit took the child when both were numbers): the "
        "theorems speak of membership, pairing, number and the NaN rules only; without log scale a non-positive evidence is "
        "outside the operators' domain and an IndexError / ZeroDivisionError there is not counted as a violation",
    ]
    if oracle_bad:
        i, v = oracle_bad[0]
        rep.violation("; ".join(v), dict(case=cases[i], tape=results[i]["tape"], observed=results[i]["out"], oracle=v,
                                         numpy_seed=(rep.seed + i) % 2 ** 31))
    elif bad:
        first = bad[0]
        mo = None if isinstance(first, tuple) else vlib.coq_eval_one(HEADER, "%s %s" % (RUNNER, pairs[first][0]))
        rep.violation("model and implementation disagree; property oracle found no failing input",
                      dict(relation="corr_C08_selection (Model/Selection.v vs bingo.selection)",
                           case=None if isinstance(first, tuple) else cases[first],
                           tape=None if isinstance(first, tuple) else results[first]["tape"],
                           implementation=None if isinstance(first, tuple) else results[first]["out"], model=mo,
                           disagreements=len(bad), log=log[-1500:]), has_input=False)
    if not proof["ok"] and not rep.violations:
        rep.violation("proof obligation no longer checks: %s" % proof["broken"],
                      dict(theorem=proof["broken"], log=proof["log"][-3000:]), has_input=False)

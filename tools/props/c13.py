"""C13: checkpoints. (a) rotation/crash-safety: Coq model + fault-injection correspondence.
(b) losslessness / transparency of dill dump-load: differential TEST only (dill is not modelled)."""
import math
import os
import random
import shutil

import vlib

HEADER = """From Bingo Require Import Model.Checkpoint.
From Coq Require Import ZArith List.
Import ListNotations.
Definition none_fs : fs := fun _ => None.
(* calls before the crashing one run to completion; then crash after k steps of the last one *)
Fixpoint run_calls (num : option nat) (calls : list (list Z)) (k : nat) (f : fs) : fs :=
  match calls with
  | [] => f
  | [ages] => crash_state num ages k f
  | ages :: r => run_calls num r k (run_ops (call_ops num [] ages) f)
  end.
Definition runner (c : option nat * list (list Z) * nat * list Z) : list Z :=
  let '(num, calls, k, names) := c in
  let f := run_calls num calls k none_fs in
  flat_map (fun a => [enc_fstate (f (Final a)); enc_fstate (f (Tmp a))]) names
  ++ flat_map enc_op (firstn k (call_ops num [] (last calls [])))."""
RUNNER = "runner"


def ages_of(start, freq, mn, mx):
    ages, a = [start], start
    while a - start < mn:
        a += freq
        ages.append(a)
    while a - start < mx:
        a += freq
        ages.append(a)
    return ages


def gen_scenario(rng, force=None):
    calls = []
    start = 0
    for _ in range(force[1] if force else rng.choice([1, 1, 2])):
        f, mn, mx = rng.randint(1, 3), rng.choice([0, 0, 2, 4]), rng.randint(1, 6)
        ages = ages_of(start, f, mn, mx)
        calls.append(dict(freq=f, min_gen=mn, max_gen=mx, ages=ages))
        start = ages[-1]
    return dict(num=force[0] if force else rng.choice([1, 1, 2, 3, None]), calls=calls, seed=rng.randrange(10 ** 6))


def coq_case(sc, k):
    names = sorted({a for c in sc["calls"] for a in c["ages"]})
    num = "None" if sc["num"] is None else "(Some %d%%nat)" % sc["num"]
    return "(%s, %s, %d%%nat, %s)" % (num, vlib.clist([c["ages"] for c in sc["calls"]], vlib.clist), k, vlib.clist(names))


# ------------------------------------------------------------------ implementation side
class CrashNow(BaseException):
    pass


def make_island(seed, family="values"):
    import numpy as np
    from bingo.chromosomes.multiple_values import SinglePointCrossover, SinglePointMutation, MultipleValueChromosomeGenerator
    from bingo.evaluation.evaluation import Evaluation
    from bingo.evolutionary_algorithms.mu_plus_lambda import MuPlusLambda
    from bingo.evolutionary_optimizers.island import Island
    from bingo.selection.tournament import Tournament
    from bingo.stats.hall_of_fame import HallOfFame
    np.random.seed(seed)
    random.seed(seed)
    if family == "values":
        from props.c13_fit import SumFitness, rand_value
        ea = MuPlusLambda(Evaluation(SumFitness()), Tournament(2), SinglePointCrossover(),
                          SinglePointMutation(rand_value), 0.4, 0.4, 10)
        return Island(ea, MultipleValueChromosomeGenerator(rand_value, 5), 10, hall_of_fame=HallOfFame(3))
    from bingo.evolutionary_algorithms.age_fitness import AgeFitnessEA
    from bingo.local_optimizers.local_opt_fitness import LocalOptFitnessFunction
    from bingo.local_optimizers.scipy_optimizer import ScipyOptimizer
    from bingo.symbolic_regression import AGraphCrossover, AGraphMutation, ComponentGenerator, AGraphGenerator, \
        ExplicitRegression, ExplicitTrainingData
    x = np.linspace(-2, 2, 30).reshape(-1, 1)
    td = ExplicitTrainingData(x, x ** 2 + 3.5 * x)
    cg = ComponentGenerator(1)
    for o in ("+", "-", "*"):
        cg.add_operator(o)
    fit = ExplicitRegression(training_data=td)
    lo = LocalOptFitnessFunction(fit, ScipyOptimizer(fit, method="lm"))
    gen = AGraphGenerator(8, cg)
    ea = AgeFitnessEA(Evaluation(lo), gen, AGraphCrossover(), AGraphMutation(cg), 0.4, 0.4, 10)
    return Island(ea, gen, 10, hall_of_fame=HallOfFame(3))


def file_state(path):
    from bingo.evolutionary_optimizers.evolutionary_optimizer import load_evolutionary_optimizer_from_file
    if not os.path.exists(path):
        return 0, None
    try:
        o = load_evolutionary_optimizer_from_file(path)
        return 2, o.generational_age
    except BaseException:  # noqa
        return 1, None


def run_scenario(sc, workdir, crash_call=None, crash_k=None):
    """runs the calls of a scenario with real files; returns (trace of the last call run, crashed?)"""
    import bingo.evolutionary_optimizers.evolutionary_optimizer as eo
    import dill
    import os as real_os
    base = os.path.join(workdir, "ck")
    state = dict(steps=0, trace=[], armed=False)

    def hit(kind, name):
        state["steps"] += 1
        state["trace"].append((kind, os.path.basename(name)))

    def before(kind):
        if state["armed"] and state["steps"] == crash_k:
            raise CrashNow()

    def w_open(name, mode="r", *a, **kw):
        if "w" in mode:
            before("open")
            fh = open(name, mode, *a, **kw)
            hit("open", name)
            return fh
        return open(name, mode, *a, **kw)

    class WDill:
        HIGHEST_PROTOCOL = dill.HIGHEST_PROTOCOL
        load = staticmethod(dill.load)

        @staticmethod
        def dump(obj, fh, protocol=None):
            data = dill.dumps(obj, protocol=protocol)
            if state["armed"] and state["steps"] == crash_k:
                fh.write(data[:len(data) // 2])
                fh.flush()
                raise CrashNow()
            fh.write(data)
            fh.flush()
            hit("finish", fh.name)

    class WOs:
        def __getattr__(self, k):
            return getattr(real_os, k)

        @staticmethod
        def replace(a, b):
            before("replace")
            real_os.replace(a, b)
            hit("replace", b)

        @staticmethod
        def remove(a):
            before("remove")
            real_os.remove(a)
            hit("remove", a)

        @staticmethod
        def rename(a, b):
            # not used by the code as it stands; a file step like the others (a crash may fall right before it) if it ever is
            before("rename")
            real_os.rename(a, b)
            hit("replace", b)

    saved = (eo.__dict__.get("open"), eo.dill, eo.os)
    eo.open, eo.dill, eo.os = w_open, WDill, WOs()
    crashed = False
    try:
        isl = make_island(sc["seed"])
        for ci, c in enumerate(sc["calls"]):
            state["steps"], state["trace"] = 0, []
            state["armed"] = (crash_call == ci)
            isl.evolve_until_convergence(c["max_gen"], -1.0, c["freq"], c["min_gen"],
                                         checkpoint_base_name=base, num_checkpoints=sc["num"])
            if crash_call == ci:
                break
    except CrashNow:
        crashed = True
    finally:
        if saved[0] is None:
            del eo.open
        else:
            eo.open = saved[0]
        eo.dill, eo.os = saved[1], saved[2]
    return state["trace"], crashed


FOREIGN = ("ck_1_0.pkl", "ck_1_2.pkl", "ck_1_6.pkl")


def impl_main(payload):
    work = os.path.join(vlib.VERIF, "work", "c13_%d" % os.getpid())
    results = []
    enc_kind = {"open": 0, "finish": 1, "replace": 2, "remove": 3}
    for sc in payload["scenarios"]:
        names = sorted({a for c in sc["calls"] for a in c["ages"]})
        last = len(sc["calls"]) - 1
        # full run: length of the last call's trace
        shutil.rmtree(work, ignore_errors=True)
        os.makedirs(work)
        trace, _ = run_scenario(sc, work)
        L = len(trace)
        ks = list(range(0, L + 1))
        if len(ks) > payload["max_points"]:
            rng = random.Random(sc["seed"])
            ks = sorted(set([0, 1, 2, 3, 4, L - 1, L] + rng.sample(ks, payload["max_points"] - 7)))
        for k in ks:
            shutil.rmtree(work, ignore_errors=True)
            os.makedirs(work)
            open(os.path.join(work, "other.pkl"), "wb").write(b"not ours")
            open(os.path.join(work, "ck_keep.txt"), "w").write("keep")
            # checkpoints of ANOTHER optimizer whose base name extends this one's ("ck_1" next to "ck"): not ours either
            for fn_ in FOREIGN:
                open(os.path.join(work, fn_), "wb").write(b"a sibling's checkpoint")
            tr, crashed = run_scenario(sc, work, crash_call=last, crash_k=k)
            out, viol = [], []
            loadable = []
            for a in names:
                s1, g1 = file_state(os.path.join(work, "ck_%d.pkl" % a))
                s2, _ = file_state(os.path.join(work, "ck_%d.pkl.tmp" % a))
                out += [s1, s2]
                if s1 == 2:
                    loadable.append((a, g1))
                    if g1 != a:
                        viol.append("ck_%d.pkl holds generation %r" % (a, g1))
            for (kind, nm) in tr[:k]:
                age = int(nm.split("_")[1].split(".")[0])
                out += [enc_kind[kind], age]
            # ---- oracle
            first_done = (last > 0) or k >= 3
            cur_ages = sc["calls"][last]["ages"]
            if first_done and not loadable:
                viol.append("crash after %d file steps: no complete, loadable checkpoint on disk" % k)
            extra = [f for f in os.listdir(work) if f not in ("other.pkl", "ck_keep.txt") + FOREIGN]
            for fn_ in FOREIGN:
                pth_ = os.path.join(work, fn_)
                if not os.path.exists(pth_):
                    viol.append("the file %s, a checkpoint of another optimizer (base name ck_1), was deleted" % fn_)
                elif open(pth_, "rb").read() != b"a sibling's checkpoint":
                    viol.append("the file %s, a checkpoint of another optimizer (base name ck_1), was overwritten" % fn_)
            own_now = [f for f in extra if f.endswith(".pkl") and int(f.split("_")[1].split(".")[0]) in cur_ages]
            if sc["num"] is not None and len(own_now) > sc["num"] + 1:
                viol.append("%d checkpoints of this call on disk, %d requested" % (len(own_now), sc["num"]))
            if open(os.path.join(work, "other.pkl"), "rb").read() != b"not ours" or \
                    open(os.path.join(work, "ck_keep.txt")).read() != "keep":
                viol.append("a file that is not the optimizer's was modified")
            if not os.path.exists(os.path.join(work, "other.pkl")) or not os.path.exists(os.path.join(work, "ck_keep.txt")):
                viol.append("a file that is not the optimizer's was deleted")
            if k < L and not crashed:
                viol.append("crash point %d of %d was not reached (trace differs between runs)" % (k, L))
            results.append(dict(scenario=sc, k=k, out=out, viol=viol, L=L))
    shutil.rmtree(work, ignore_errors=True)
    loss = lossless_tests(payload["lossless_runs"], payload["seed"])
    # known finding F14b replay: retention 0
    shutil.rmtree(work, ignore_errors=True)
    os.makedirs(work)
    sc0 = dict(num=0, calls=[dict(freq=1, min_gen=0, max_gen=2, ages=[0, 1, 2])], seed=1)
    run_scenario(sc0, work)
    f14b = not any(f.endswith(".pkl") for f in os.listdir(work))
    shutil.rmtree(work, ignore_errors=True)
    return dict(results=results, lossless=loss, f14b=f14b)


def snapshot(opt):
    import numpy as np

    def ind(i):
        if hasattr(i, "values"):
            g = [repr(v) for v in i.values]
        else:
            g = [i.command_array.tolist(), [repr(float(c)) for c in np.atleast_1d(i.constants)]]
        f = i.fitness
        return [g, None if f is None else repr(float(f)), i.genetic_age, bool(i.fit_set)]

    def island(isl):
        hof = [] if isl.hall_of_fame is None else [ind(h) for h in isl.hall_of_fame]
        d = dict(age=isl.generational_age, pop=[ind(p) for p in isl.population], hof=hof,
                 evals=isl.get_fitness_evaluation_count(),
                 diag=repr(isl.get_ea_diagnostic_info().summary))
        if hasattr(isl, "_predictor_island"):
            # a fitness-predictor island also owns a population of predictors and their evaluation counters
            pi, pf = isl._predictor_island, isl._predictor_fitness_function
            d["predictors"] = dict(age=pi.generational_age, pop=[ind(p) for p in pi.population],
                                   evals=pi.get_fitness_evaluation_count(), point_evals=int(pf.point_eval_count),
                                   # the training subset the main population is currently judged on
                                   subset=repr(np.asarray(isl._fitness_function.training_data).tolist()))
        return d
    if hasattr(opt, "islands"):
        d = dict(age=opt.generational_age, islands=[island(i) for i in opt.islands],
                 hof=[] if opt.hall_of_fame is None else [ind(h) for h in opt.hall_of_fame])
        return d
    return island(opt)


def lossless_tests(nruns, seed):
    import copy
    import dill
    import numpy as np
    from bingo.evolutionary_optimizers.evolutionary_optimizer import load_evolutionary_optimizer_from_file
    from bingo.evolutionary_optimizers.serial_archipelago import SerialArchipelago
    from bingo.evolutionary_optimizers.fitness_predictor_island import FitnessPredictorIsland
    from bingo.stats.hall_of_fame import HallOfFame
    work = os.path.join(vlib.VERIF, "work", "c13b_%d" % os.getpid())
    shutil.rmtree(work, ignore_errors=True)
    os.makedirs(work)
    rng = random.Random(seed)
    out = dict(runs=0, viol=[], samples=[], deep_state_touched_by_dump=0)
    for r in range(nruns):
        s = rng.randrange(10 ** 6)
        KINDS = ["island-values", "island-agraph", "archipelago-values", "predictor-values", "predictor-values-slow", "predictor-values-slow",
                 "predictor-values-slow", "predictor-values-agefit"]
        kind = KINDS[r % len(KINDS)]
        fam = "agraph" if "agraph" in kind else "values"
        isl = make_island(s, fam)
        if kind.startswith("archipelago"):
            opt = SerialArchipelago(isl, num_islands=3, hall_of_fame=HallOfFame(3))
        elif kind.startswith("predictor"):
            ea = isl._ea
            from props.c13_fit import DistanceToAverage
            from bingo.evaluation.evaluation import Evaluation
            ea.evaluation = Evaluation(DistanceToAverage(np.linspace(0.1, 1, 60)))
            if kind.endswith("agefit"):
                # a main algorithm whose survivors stay the same OBJECTS from one generation to the next (age-fitness keeps them,
                # a tournament copies every winner): whatever the island remembers per object and not in its pickled state -
                # memo tables, identity-keyed caches - is warm in the original and cold in the loaded optimizer
                from bingo.evolutionary_algorithms.age_fitness import AgeFitnessEA
                from bingo.chromosomes.multiple_values import SinglePointCrossover, SinglePointMutation, MultipleValueChromosomeGenerator
                from props.c13_fit import rand_value
                gen_ = MultipleValueChromosomeGenerator(rand_value, 10)
                ea = AgeFitnessEA(Evaluation(DistanceToAverage(np.linspace(0.1, 1, 200) ** 3)), gen_, SinglePointCrossover(),
                                  SinglePointMutation(rand_value), 0.4, 0.4, 20)
                opt = FitnessPredictorIsland(ea, gen_, 20, hall_of_fame=HallOfFame(3), predictor_population_size=8,
                                             trainer_population_size=4, predictor_size_ratio=0.1,
                                             predictor_computation_ratio=0.9, trainer_update_frequency=2,
                                             predictor_update_frequency=5)
            elif kind.endswith("slow"):
                # the predictor in use is refreshed rarely while the predictor island keeps evolving (a busy main population pays
                # for it): a dump taken between two refreshes must not re-synchronise anything on load
                from bingo.evolutionary_algorithms.mu_plus_lambda import MuPlusLambda
                from bingo.selection.tournament import Tournament
                from bingo.chromosomes.multiple_values import SinglePointCrossover, SinglePointMutation, MultipleValueChromosomeGenerator
                from props.c13_fit import rand_value
                ea = MuPlusLambda(Evaluation(DistanceToAverage(np.linspace(0.1, 1, 200) ** 3)), Tournament(2), SinglePointCrossover(),
                                  SinglePointMutation(rand_value), 0.0, 1.0, 40)
                opt = FitnessPredictorIsland(ea, MultipleValueChromosomeGenerator(rand_value, 10), 40, hall_of_fame=HallOfFame(3),
                                             predictor_population_size=16, trainer_population_size=4, predictor_size_ratio=0.1,
                                             predictor_computation_ratio=0.7, trainer_update_frequency=3,
                                             predictor_update_frequency=10)
            else:
                opt = FitnessPredictorIsland(ea, isl._generator, 10, hall_of_fame=HallOfFame(3), predictor_population_size=4,
                                             trainer_population_size=4, predictor_size_ratio=0.2,
                                             predictor_computation_ratio=0.3, trainer_update_frequency=2,
                                             predictor_update_frequency=3)
        else:
            opt = isl
        g1, g2 = rng.randint(1, 4), rng.randint(1, 4)
        if kind.endswith("slow"):
            g1, g2 = rng.randint(3, 9), 6
        if kind.endswith("agefit"):
            g1, g2 = rng.randint(5, 9), 10
        # half of the runs are driven through evolve_until_convergence (its stagnation / best-fitness bookkeeping is state too)
        conv = (r // len(KINDS)) % 2 == 1
        if conv:
            opt.evolve_until_convergence(max_generations=g1 + 2, fitness_threshold=-1e300, convergence_check_frequency=1)
        else:
            opt.evolve(g1)
        if kind == "island-agraph":
            # a seed equation put in by hand right before the dump: it carries real constants and has never been evaluated or
            # printed (its simplified form is still pending)
            from bingo.symbolic_regression.agraph.agraph import AGraph
            seeded = AGraph()
            seeded.command_array = np.array([[1, 0, 0], [1, 1, 1], [0, 0, 0], [4, 0, 2], [2, 3, 1], [0, 0, 0], [4, 2, 5], [2, 4, 6]], dtype=int)
            seeded.set_local_optimization_params((2.5, 1.25))
            opt.population[0] = seeded
        path = os.path.join(work, "t.pkl")
        deep_pre = dill.dumps(opt)
        opt.dump_to_file(path)
        # hidden state (e.g. the predictor island's point counters) decides later generations: when the dump touched any of it,
        # follow both optimizers for many more generations to let a divergence show
        touched = dill.dumps(opt) != deep_pre
        out["deep_state_touched_by_dump"] += int(touched)
        if touched:
            g2 = 16
        before = snapshot(opt)
        loaded = load_evolutionary_optimizer_from_file(path)
        after = snapshot(loaded)
        if before != after:
            out["viol"].append("%s seed %d: loaded optimizer differs from the dumped one" % (kind, s))
        if snapshot(opt) != before:
            out["viol"].append("%s seed %d: dumping changed the optimizer" % (kind, s))
        st_np, st_py = np.random.get_state(), random.getstate()

        def cont(o):
            if not conv:
                tr = []
                for _ in range(g2):
                    o.evolve(1)
                    tr.append(snapshot(o))
                return tr
            res_ = o.evolve_until_convergence(max_generations=g2 + 6, fitness_threshold=-1e300, convergence_check_frequency=1,
                                              stagnation_generations=2)
            return [(res_.status, res_.ngen, repr(res_.fitness)), snapshot(o)]
        traj_a = cont(opt)
        np.random.set_state(st_np)
        random.setstate(st_py)
        traj_b = cont(loaded)
        if traj_a != traj_b:
            out["viol"].append("%s seed %d: evolution after restore diverges from the original under the same RNG state" % (kind, s))
        out["runs"] += 1
        out["samples"].append(dict(kind=kind, seed=s, gens_before=g1, gens_after=g2, through_evolve_until_convergence=conv))
    # ---- what a checkpointed call leaves on disk does not depend on files of the same names left by an EARLIER call: a second
    # call from the same state (after the population was regenerated, so the age repeats) runs once in a directory that still
    # holds the first call's checkpoints and once in an empty one; every checkpoint must load to the same optimizer state
    out["rewrite_runs"] = 0
    for r in range(max(2, nruns // 8)):
        s = rng.randrange(10 ** 6)
        opt = make_island(s, "values")
        d_old, d_new = os.path.join(work, "old%d" % r), os.path.join(work, "new%d" % r)
        os.makedirs(d_old)
        os.makedirs(d_new)
        kw = dict(fitness_threshold=-1e300, convergence_check_frequency=rng.choice([1, 2]), num_checkpoints=rng.choice([None, 2, 3]))
        opt.evolve_until_convergence(max_generations=rng.randint(1, 3), checkpoint_base_name=os.path.join(d_old, "ck"), **kw)
        opt.regenerate_population()
        twin = copy.deepcopy(opt)
        st_np, st_py = np.random.get_state(), random.getstate()
        g2 = rng.randint(1, 3)
        opt.evolve_until_convergence(max_generations=g2, checkpoint_base_name=os.path.join(d_old, "ck"), **kw)
        np.random.set_state(st_np)
        random.setstate(st_py)
        twin.evolve_until_convergence(max_generations=g2, checkpoint_base_name=os.path.join(d_new, "ck"), **kw)
        out["rewrite_runs"] += 1
        for f in sorted(os.listdir(d_new)):
            if not f.endswith(".pkl"):
                continue
            if not os.path.exists(os.path.join(d_old, f)):
                out["viol"].append("seed %d: checkpoint %s is written in an empty directory but missing where an earlier call had left files" % (s, f))
                break
            a = snapshot(load_evolutionary_optimizer_from_file(os.path.join(d_new, f)))
            b = snapshot(load_evolutionary_optimizer_from_file(os.path.join(d_old, f)))
            if a != b:
                out["viol"].append("seed %d: checkpoint %s of a second call holds generation %r / a population of the EARLIER call where a file "
                                   "of that name already existed; in an empty directory the same call writes the current state" % (s, f, b["age"]))
                break
    shutil.rmtree(work, ignore_errors=True)
    return out


def check(rep, proof):
    rng = random.Random(rep.seed)
    nsc = 14 if rep.tier == "quick" else 250
    forced = [(1, 2), (1, 1), (2, 2), (1, 3)]
    scenarios = [gen_scenario(rng, f) for f in forced] + [gen_scenario(rng) for _ in range(nsc - len(forced))]
    rc, res, out, wall = vlib.run_impl("c13", dict(scenarios=scenarios, max_points=18 if rep.tier == "quick" else 60,
                                                   lossless_runs=24 if rep.tier == "quick" else 160, seed=rep.seed), timeout=3400)
    if res is None:
        rep.violation("implementation harness crashed", dict(relation="corr_C13_checkpoint", log=out[-3000:]), has_input=False)
        return
    results, loss = res["results"], res["lossless"]
    oracle_bad = [(i, r["viol"]) for i, r in enumerate(results) if r["viol"]]
    pairs = [(coq_case(r["scenario"], r["k"]), r["out"]) for r in results]
    bad, log = vlib.coq_compare("c13", HEADER, RUNNER, pairs)
    rep.coverage.update(
        evaluations=len(results) + loss["runs"],
        distinct_nontrivial=len({(repr(r["scenario"]), r["k"]) for r in results if r["k"] >= 1}),
        rule="real Island.evolve_until_convergence with checkpointing in a scratch directory (retention 1-3 or unlimited, frequency "
             "1-3, 1-2 consecutive calls); the file-operation trace of the last call is recorded and a crash is injected before every "
             "step and in the middle of every write; after each crash every <base>_<age>.pkl(.tmp) is classified absent / "
             "unloadable / loadable with load_evolutionary_optimizer_from_file and compared with Model/Checkpoint.v; plus dump/load/"
             "continue differential tests (clause b, test only); non-trivial = crash after at least one step",
        samples=[dict(scenario=results[0]["scenario"], k=results[0]["k"], observed=results[0]["out"])] + loss["samples"][:2],
        correspondence=dict(crash_points=len(results), disagreements=len(bad), scenarios=len(scenarios)),
        lossless_test=dict(runs=loss["runs"], violations=len(loss["viol"]),
                           dumps_that_changed_the_serialised_state=loss["deep_state_touched_by_dump"],
                           note="differential test, not a theorem: dill is not modelled"),
        oracle_violations=len(oracle_bad) + len(loss["viol"]),
    )
    rep.assumptions += [
        "each of open(tmp,'wb'), end of dill.dump+close, os.replace, os.remove is one atomic step; os.replace is atomic",
        "checkpoint ages within a call are strictly increasing (every round evolves >= 1 generation: C14)",
        "clause (b) (lossless, transparent) is a differential test only - dill and deepcopy of object graphs are not modelled",
    ]
    for f in vlib.load_findings("C13"):
        if f["id"] == "F14b" and res.get("f14b"):
            rep.known.append("%s %s" % (f["id"], f["what"]))
    if oracle_bad:
        i, v = oracle_bad[0]
        rep.violation("; ".join(v[:3]), dict(scenario=results[i]["scenario"], crash_after_steps=results[i]["k"],
                                             observed=results[i]["out"], oracle=v))
    elif loss["viol"]:
        rep.violation(loss["viol"][0], dict(kind="dump/load/continue differential test", detail=loss["viol"][:5]))
    elif bad:
        first = bad[0]
        j = None if isinstance(first, tuple) else first
        mo = None if j is None else vlib.coq_eval_one(HEADER, "%s %s" % (RUNNER, pairs[j][0]))
        rep.violation("model and implementation disagree; property oracle found no failing input",
                      dict(relation="corr_C13_checkpoint (Model/Checkpoint.v vs _update_checkpoints/dump_to_file under crash injection)",
                           scenario=None if j is None else results[j]["scenario"], k=None if j is None else results[j]["k"],
                           implementation=None if j is None else results[j]["out"], model=mo, disagreements=len(bad),
                           log=log[-1500:]), has_input=False)
    if not proof["ok"] and not rep.violations:
        rep.violation("proof obligation no longer checks: %s" % proof["broken"],
                      dict(theorem=proof["broken"], log=proof["log"][-3000:]), has_input=False)

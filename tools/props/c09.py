"""C09: elitist algorithms never lose their best solution.  The theorems are corollaries of the C08/C10/C11 models;
this check re-proves them and runs a monitor over real seeded evolutions (a test that looks for a replay when an upstream
proof or correspondence is broken), plus the C08 age-fitness/crowding correspondence restricted to the covering clause."""
import math
import random

import vlib
from props import c08

HEADER = c08.HEADER
RUNNER = c08.RUNNER


def impl_main(payload):
    import numpy as np
    from bingo.chromosomes.multiple_values import SinglePointCrossover, SinglePointMutation, MultipleValueChromosomeGenerator
    from bingo.evaluation.evaluation import Evaluation
    from bingo.evolutionary_algorithms.age_fitness import AgeFitnessEA
    from bingo.evolutionary_algorithms.generalized_crowding import GeneralizedCrowdingEA
    from bingo.evolutionary_optimizers.island import Island
    from bingo.evolutionary_optimizers.serial_archipelago import SerialArchipelago
    from bingo.stats.hall_of_fame import HallOfFame
    from props.c09_fit import NanProneFitness, small_float

    def best_of(pops):
        vals = [p.fitness for pop in pops for p in pop if p.fit_set and p.fitness is not None and not math.isnan(p.fitness)]
        return min(vals) if vals else None

    out = dict(runs=0, generations=0, viol=[], samples=[])
    rng = random.Random(payload["seed"])
    for r in range(payload["runs"]):
        s = rng.randrange(10 ** 6)
        np.random.seed(s)
        random.seed(s)
        kind = r % 4
        # tiny populations too: the age/fitness Pareto front is then often larger than the target size, and selection
        # legitimately hands back more than asked for
        n = rng.choice([2, 3, 4, 4, 5, 6, 7, 10])
        if kind in (1, 3) and n % 2:
            n += 1
        ev = Evaluation(NanProneFitness(nan_every=rng.choice([0, 3, 5])))
        gen = MultipleValueChromosomeGenerator(small_float, 4)
        if kind in (0, 2):
            ea = AgeFitnessEA(ev, gen, SinglePointCrossover(), SinglePointMutation(small_float), 0.5, 0.4, n,
                              selection_size=rng.choice([2, 2, 3, 5]))
        else:
            ea = GeneralizedCrowdingEA(ev, SinglePointCrossover(), SinglePointMutation(small_float), 0.5, 0.4)
        isl = Island(ea, gen, n, hall_of_fame=HallOfFame(3))
        opt = SerialArchipelago(isl, num_islands=rng.choice([1, 1, 2, 3, 4, 5]), hall_of_fame=HallOfFame(3)) if kind >= 2 else isl
        islands = opt.islands if hasattr(opt, "islands") else [opt]
        prev, offered_min = None, None
        traj = []
        for g in range(payload["gens"]):
            try:
                opt.evolve(1)
            except Exception as e:  # noqa   an exception is the loss of the whole run
                out["viol"].append("seed %d kind %d (%d islands of %d): evolve raised %r at generation %d"
                                   % (s, kind, len(islands), n, e, g))
                break
            for i in islands:
                i.evaluate_population()
            cur = best_of([i.population for i in islands])
            traj.append(cur)
            out["generations"] += 1
            if prev is not None and (cur is None or cur > prev):
                out["viol"].append("%s seed %d: best fitness over the %s went from %r to %r at generation %d"
                                   % (["age-fitness island", "deterministic-crowding island", "age-fitness archipelago",
                                       "deterministic-crowding archipelago"][kind], s,
                                      "archipelago" if kind >= 2 else "island", prev, cur, g))
                break
            prev = cur if cur is not None else prev
            hof = opt.hall_of_fame
            if cur is not None:
                offered_min = cur if offered_min is None else min(offered_min, cur)
            if hof is not None and offered_min is not None:
                if len(hof) == 0 or not (hof[0].fitness <= offered_min):      # NaN-aware: a NaN best entry bounds nothing
                    out["viol"].append("seed %d: hall of fame best %r is worse than the best individual %r of a population it was updated with"
                                       % (s, hof[0].fitness if len(hof) else None, offered_min))
                    break
        out["runs"] += 1
        if len(out["samples"]) < 3:
            out["samples"].append(dict(seed=s, kind=kind, size=n, islands=len(islands), trajectory=traj))
        if out["viol"]:
            break
    # the hall-of-fame clause on direct update histories: NaN anywhere (first included), full halls, ties, capacity 1-3,
    # populations that contain a new best together with NaN members (the monitored evolutions reach these too rarely)
    class P:
        def __init__(self, f):
            self.fitness, self.fit_set = f, True
    hst = dict(histories=0, updates=0, nan_first=0, full_then_better=0)
    for h in range(payload.get("hof_histories", 0)):
        if out["viol"]:
            break
        cap = rng.choice([1, 2, 3])
        hof = HallOfFame(cap)
        offered, hist = None, []
        for u in range(rng.randint(1, 6)):
            pop = [P(float("nan") if rng.random() < 0.3 else float(rng.randint(0, 9))) for _ in range(rng.randint(1, 6))]
            if rng.random() < 0.4:
                pop[0].fitness = float("nan")
            hist.append([None if math.isnan(p.fitness) else p.fitness for p in pop])
            nn = [p.fitness for p in pop if not math.isnan(p.fitness)]
            hst["nan_first"] += math.isnan(pop[0].fitness) and bool(nn)
            hst["full_then_better"] += len(hof) == cap and bool(nn) and offered is not None and min(nn) < offered
            try:
                hof.update(pop)
            except Exception as e:  # noqa
                out["viol"].append("HallOfFame(%d).update raised %r on history %r" % (cap, e, hist))
                break
            hst["updates"] += 1
            if nn:
                offered = min(nn) if offered is None else min(offered, min(nn))
            if offered is not None and (len(hof) == 0 or not (hof[0].fitness <= offered)):
                out["viol"].append("HallOfFame(%d) after the update history %r: best entry %r is worse than the best individual %r "
                                   "of a population it was updated with" % (cap, hist, hof[0].fitness if len(hof) else None, offered))
                break
        hst["histories"] += 1
    out["hof_histories"] = hst
    # covering clause on the C08 selection cases (age-fitness and crowding with target = half)
    cres = c08.impl_main(dict(cases=payload["cases"], seed=payload["seed"]))
    return dict(mon=out, c08=cres["results"])


def check(rep, proof):
    rng = random.Random(rep.seed)
    n = 1200 if rep.tier == "quick" else 30000
    cases = []
    while len(cases) < n:
        c = c08.gen_case(rng)
        if c["kind"] in (0, 2):
            cases.append(c)
    rc, res, out, wall = vlib.run_impl("c09", dict(cases=cases, seed=rep.seed, runs=40 if rep.tier == "quick" else 1500,
                                                   gens=12, hof_histories=1500 if rep.tier == "quick" else 40000), timeout=3400)
    if res is None:
        rep.violation("implementation harness crashed", dict(relation="monitor_C09", log=out[-3000:]), has_input=False)
        return
    mon, results = res["mon"], res["c08"]
    # direct covering oracle on the selection outputs
    cover_bad = []
    for i, (c, r) in enumerate(zip(cases, results)):
        if r["out"][:1] != [0]:
            continue
        fit = {t[0]: t[2] for t in c["pop"]}

        def val(t):
            f = fit.get(t)
            return None if f is None else f
        if c["kind"] == 0:
            k = r["out"][1]
            ret = r["out"][2:2 + k]
            inp = [t[0] for t in c["pop"]]
        else:
            ret = r["out"][1:]
            if c["target"] != len(c["pop"]) // 2:
                continue
            inp = [t[0] for t in c["pop"][:len(c["pop"]) // 2]]
        rv = [val(t) for t in ret if val(t) is not None]
        for t in inp:
            if val(t) is not None and not any(v <= val(t) for v in rv):
                cover_bad.append((i, "selection dropped fitness %r and kept nothing as good: kept %r" % (val(t), rv)))
                break
    pairs = [(c08.coq_case(c, r["tape"], r["close"]), r["out"]) for c, r in zip(cases, results)]
    bad, log = vlib.coq_compare("c09", HEADER, RUNNER, pairs)
    rep.coverage.update(
        evaluations=len(cases) + mon["generations"],
        distinct_nontrivial=len({repr(c) for c in cases if len(c["pop"]) >= 3}),
        rule="(i) real AgeFitness / DeterministicCrowding selection calls replayed through Model/Selection.v (as in C08) and checked "
             "directly for the covering clause (every dropped non-NaN fitness is matched by a kept one that is no larger); (ii) "
             "monitor: real seeded evolutions (AgeFitnessEA with selection sizes 2-5, GeneralizedCrowdingEA with deterministic "
             "crowding; islands and serial archipelagos of 1-5 islands; a fitness function that returns NaN for some genomes; ties) "
             "- best non-NaN fitness per generation must not increase, hall-of-fame best must bound everything offered; (iii) direct "
             "HallOfFame update histories (capacity 1-3, 1-6 updates with populations of 1-6, NaN members incl. the first, ties, a "
             "new best arriving at a full hall) with the same bound after every update",
        samples=mon["samples"],
        correspondence=dict(cases=len(cases), disagreements=len(bad)),
        monitor=dict(runs=mon["runs"], generations=mon["generations"], violations=len(mon["viol"]),
                     hall_of_fame_histories=mon.get("hof_histories")),
        oracle_violations=len(cover_bad) + len(mon["viol"]),
    )
    rep.assumptions += [
        "the theorems are about Model/Selection.v and Model/Hof.v; their ties are the C08 and C10 correspondences (re-run here for "
        "the selection part) and C05 (candidates carry their true fitness) and C11 (migration permutes)",
        "deterministic fitness function; mu+lambda with a non-elitist selection (tournament) is not claimed",
    ]
    if cover_bad:
        i, v = cover_bad[0]
        rep.violation(v, dict(case=cases[i], tape=results[i]["tape"], observed=results[i]["out"]))
    elif mon["viol"]:
        rep.violation(mon["viol"][0], dict(kind="seeded evolution monitor", detail=mon["viol"][:3],
                                           how="tools/props/c09.py impl_main(seed=%d)" % rep.seed))
    elif bad:
        first = bad[0]
        j = None if isinstance(first, tuple) else first
        mo = None if j is None else vlib.coq_eval_one(HEADER, "%s %s" % (RUNNER, pairs[j][0]))
        rep.violation("model and implementation disagree; property oracle found no failing input",
                      dict(relation="corr_C09 (Model/Selection.v vs bingo.selection, covering clause)",
                           case=None if j is None else cases[j], implementation=None if j is None else results[j]["out"],
                           model=mo, disagreements=len(bad), log=log[-1500:]), has_input=False)
    if not proof["ok"] and not rep.violations:
        rep.violation("proof obligation no longer checks: %s" % proof["broken"],
                      dict(theorem=proof["broken"], log=proof["log"][-3000:]), has_input=False)

"""C19: every individual is evaluated when due and counted once per evaluation (also serves C17a)."""
import random

import vlib

HEADER = """From Bingo Require Import Model.EvalPhase.
From Coq Require Import ZArith List Bool.
Import ListNotations.
Definition fitz (g : Z) : Z := g.
Definition optz (g : Z) : Z := if (g <? 1000)%Z then (g + 1000)%Z else g.
Definition kz (g : Z) : nat := if (g <? 1000)%Z then Z.to_nat (g mod 3) else 0%nat.
Definition enc_ind (base : nat) (i : indiv Z Z) : list Z :=
  [(if Nat.leb base (oid Z Z i) then 1 else 0)%Z; genome Z Z i;
   (match fitness Z Z i with None => -1 | Some f => f end)%Z; (if fit_set Z Z i then 1 else 0)%Z].
Definition faultz (on : bool) (g : Z) : bool := on && (g mod 1000 =? 13)%Z.
Definition runner (c : bool * bool * nat * list (Z * option Z * bool) * bool) : list Z :=
  let '(multi, red, c0, p, fault) := c in
  let pop := (fix mk (l : list (Z * option Z * bool)) (n : nat) :=
                match l with [] => [] | (g, f, s) :: r => mkIndiv Z Z n g f s :: mk r (S n) end) p 0%nat in
  if (if multi then match multiprocess_eval_p Z Z fitz optz kz (faultz fault) red [] 5000%nat (mkCounter c0 0) pop with None => true | _ => false end
      else match serial_eval_p Z Z fitz optz kz (faultz fault) red (mkCounter c0 0) pop with None => true | _ => false end)
  then [(-99)%Z]        (* the phase raises *)
  else
  if multi then
    let '(c', pop', wg) := multiprocess_eval Z Z fitz optz kz red [] 5000%nat (mkCounter c0 0) pop in
    Z.of_nat (count c') :: Z.of_nat wg :: flat_map (enc_ind 5000%nat) pop'
  else
    let '(c', pop') := serial_eval Z Z fitz optz kz red (mkCounter c0 0) pop in
    Z.of_nat (count c') :: Z.of_nat (ghost c') :: flat_map (enc_ind 5000%nat) pop'."""
RUNNER = "runner"


def gen_case(rng, multi=None, fault=None):
    n = rng.randint(0, 9)
    pop = []
    fault = (rng.random() < 0.25) if fault is None else fault
    for _ in range(n):
        g = rng.randint(0, 40) + (1000 if rng.random() < 0.3 else 0)
        if fault and rng.random() < 0.2:
            g = 13 + (1000 if rng.random() < 0.3 else 0)       # the fitness function raises on this genome
        evaluated = rng.random() < 0.45
        # a stored fitness of -7 stands for NaN (a failed evaluation that was nevertheless recorded): marked is marked
        pop.append([g, ((rng.randint(0, 99) if rng.random() < 0.8 else -7) if evaluated else None), evaluated])
    return dict(multi=(rng.random() < 0.35) if multi is None else multi, red=rng.random() < 0.3,
                c0=rng.randint(0, 50), pop=pop, procs=rng.choice([1, 2, 3]), wrapped=True, fault=fault)


def coq_case(c):
    return "(%s, %s, %d%%nat, %s, %s)" % (vlib.cbool(c["multi"]), vlib.cbool(c["red"]), c["c0"],
                                          vlib.clist(c["pop"], lambda t: "(%s, %s, %s)" % (vlib.cz(t[0]), vlib.copt(t[1]), vlib.cbool(t[2]))),
                                          vlib.cbool(bool(c.get("fault"))))


def run_phase_case(c):
    """runs one evaluation phase on the real classes; returns (out, viol)"""
    from bingo.evaluation.evaluation import Evaluation
    from bingo.local_optimizers.local_opt_fitness import LocalOptFitnessFunction
    from props.c19_fit import ToyChrom, CountingFitness, FaultyFitness, ToyOptimizer, REAL_CALLS
    base = FaultyFitness() if c.get("fault") else CountingFitness()
    base.eval_count = c["c0"]
    fn = LocalOptFitnessFunction(base, ToyOptimizer(base))
    pop = []
    for (g, f, s) in c["pop"]:
        ind = ToyChrom([g])
        if s:
            ind.fitness = float("nan") if f == -7 else float(f)
        pop.append(ind)
    before = list(pop)
    REAL_CALLS.value = 0
    ev = Evaluation(fn, redundant=c["red"], multiprocess=(c["procs"] if c["multi"] else False))
    must_raise = bool(c.get("fault")) and any((c["red"] or not s) and g % 1000 == 13 for (g, f, s) in c["pop"])
    try:
        ev(pop)
    except ZeroDivisionError:
        if must_raise:
            return [-99], []
        return [-99], ["the evaluation phase raised although no individual that was due makes the fitness function raise"]
    if must_raise:
        left = [j for j, ((g, f, s), ind) in enumerate(zip(c["pop"], pop)) if (c["red"] or not s) and not ind.fit_set]
        return [0], ["the fitness function raised for a due individual, yet the evaluation phase (%s) returned normally; slots %r that "
                     "were due are still unevaluated; eval_count grew by %d"
                     % ("%d worker processes" % c["procs"] if c["multi"] else "serial", left, ev.eval_count - c["c0"])]
    real = REAL_CALLS.value
    viol = []
    out = [ev.eval_count, real if c["multi"] else ev.eval_count - c["c0"]]
    if not c["multi"]:
        out[1] = real
    for j, ind in enumerate(pop):
        same = ind is before[j]
        fit = -1 if ind.fitness is None else (-7 if ind.fitness != ind.fitness else int(ind.fitness))
        out += [0 if same else 1, int(ind.values[0]), fit, 1 if ind.fit_set else 0]
    # ---- oracle
    if ev.eval_count - c["c0"] != real:
        viol.append("eval_count grew by %d, the base fitness function was really invoked %d times" % (ev.eval_count - c["c0"], real))
    if base.eval_count != ev.eval_count or fn.eval_count != ev.eval_count:
        viol.append("eval_count differs along the delegation chain")
    if len(pop) != len(before):
        viol.append("population length changed")
    for j, (ind, (g, f, s)) in enumerate(zip(pop, c["pop"])):
        due = c["red"] or not s
        if due:
            g2 = g + 1000 if g < 1000 else g
            if not ind.fit_set or ind.fitness != float(g2) or ind.values[0] != g2:
                viol.append("slot %d was due but holds genome %r fitness %r flag %r" % (j, ind.values[0], ind.fitness, ind.fit_set))
        else:
            kept = (ind.fitness != ind.fitness) if f == -7 else (ind.fitness == float(f))
            if ind is not before[j] or not kept or ind.values[0] != g:
                viol.append("slot %d was already evaluated but was touched" % j)
        if not c["multi"] and ind is not before[j]:
            viol.append("serial evaluation replaced the object in slot %d" % j)
    return out, viol


def history_runs(nruns, seed):
    """real islands / serial archipelagos with ExplicitRegression (+local optimisation, worker processes, subset
    evaluation): reported evaluation count against an independent count of real invocations after every evolve"""
    import multiprocessing
    import numpy as np
    import bingo.symbolic_regression.explicit_regression as er
    from bingo.evaluation.evaluation import Evaluation
    from bingo.evaluation.random_subset_evaluation import RandomSubsetEvaluation
    from bingo.evolutionary_algorithms.age_fitness import AgeFitnessEA
    from bingo.evolutionary_optimizers.island import Island
    from bingo.evolutionary_optimizers.serial_archipelago import SerialArchipelago
    from bingo.local_optimizers.local_opt_fitness import LocalOptFitnessFunction
    from bingo.local_optimizers.scipy_optimizer import ScipyOptimizer
    from bingo.stats.hall_of_fame import HallOfFame
    from bingo.symbolic_regression import AGraphCrossover, AGraphMutation, ComponentGenerator, AGraphGenerator, \
        ExplicitRegression, ExplicitTrainingData
    import bingo.symbolic_regression.implicit_regression as ir
    import bingo.symbolic_regression.implicit_regression_schmidt as irs
    counter = multiprocessing.Value("q", 0)
    # every entry point through which a shipped vector-based fitness function is invoked
    classes = [er.ExplicitRegression, ir.ImplicitRegression, irs.ImplicitRegressionSchmidt]
    saved = []

    def counting(orig):
        def w(self, individual):
            with counter.get_lock():
                counter.value += 1
            return orig(self, individual)
        return w
    for cls in classes:
        for name in ("evaluate_fitness_vector", "get_fitness_vector_and_jacobian"):
            if name in cls.__dict__:
                saved.append((cls, name, cls.__dict__[name]))
                setattr(cls, name, counting(cls.__dict__[name]))
    out = dict(runs=0, checks=0, viol=[], samples=[])
    rng = random.Random(seed)
    try:
        for r in range(nruns):
            s = rng.randrange(10 ** 6)
            np.random.seed(s)
            random.seed(s)
            mode = ["plain", "localopt", "localopt-mp", "subset", "archipelago", "archipelago-localopt",
                    "implicit-required", "implicit", "implicit-schmidt", "archipelago-implicit-required",
                    "localopt-lm-tiny"][r % 11]
            if "implicit" in mode:
                # circle data in 3 variables (one of them unused by the invariant): equations using too few variables
                # are rejected with an inf vector when required_params is set - an invocation all the same
                t = np.linspace(0, 3, 30)
                xs = np.column_stack([np.sin(t), np.cos(t), 0.5 * t])
                itd = ir.ImplicitTrainingData(xs)
                cg = ComponentGenerator(3)
                for o in ("+", "-", "*"):
                    cg.add_operator(o)
                if mode == "implicit-schmidt":
                    fit = irs.ImplicitRegressionSchmidt(itd)
                else:
                    fit = ir.ImplicitRegression(itd, required_params=(rng.choice([2, 3]) if "required" in mode else None))
            else:
                # one data point: equations with two or more constants make the root method reject the problem and the
                # optimizer fall back to BFGS - invocations all the same
                x = np.linspace(-2, 2, 1 if mode == "localopt-lm-tiny" else 24).reshape(-1, 1)
                td = ExplicitTrainingData(x, x ** 2 + 3.5 * x)
                cg = ComponentGenerator(1)
                for o in ("+", "-", "*"):
                    cg.add_operator(o)
                fit = ExplicitRegression(training_data=td)
            fn = fit
            if "localopt" in mode:
                fn = LocalOptFitnessFunction(fit, ScipyOptimizer(fit, method=("lm" if mode == "localopt-lm-tiny" else rng.choice(["lm", "BFGS"]))))
            if mode == "subset":
                ev = RandomSubsetEvaluation(fn, 10)
            else:
                ev = Evaluation(fn, multiprocess=(2 if mode.endswith("-mp") else False))
            gen = AGraphGenerator(8, cg)
            ea = AgeFitnessEA(ev, gen, AGraphCrossover(), AGraphMutation(cg), 0.4, 0.4, 8)
            isl = Island(ea, gen, 8, hall_of_fame=HallOfFame(3))
            opt = SerialArchipelago(isl, num_islands=rng.randint(2, 3)) if mode.startswith("archipelago") else isl
            counter.value = 0
            for g in range(rng.randint(2, 4)):
                opt.evolve(1)
                if g == 1:
                    opt.get_best_individual()
                    if hasattr(opt, "evaluate_population"):
                        opt.evaluate_population()
                rep, real = opt.get_fitness_evaluation_count(), counter.value
                out["checks"] += 1
                if rep != real:
                    out["viol"].append("%s seed %d generation %d: reported evaluation count %d, real invocations %d"
                                       % (mode, s, g, rep, real))
                    break
            out["runs"] += 1
            out["samples"].append(dict(mode=mode, seed=s, reported=opt.get_fitness_evaluation_count(), real=counter.value))
        # ---- one phase of RandomSubsetEvaluation: subsets smaller than, one short of, and as large as the data; marked
        # individuals carry a fitness that belongs to nothing.  Redundant evaluation (its default) re-evaluates everybody.
        from bingo.symbolic_regression.agraph.agraph import AGraph
        out["subset_phase_checks"] = 0
        for r in range(max(6, nruns)):
            n = rng.choice([6, 9, 12])
            x = np.linspace(-2, 2, n).reshape(-1, 1)
            fit = ExplicitRegression(training_data=ExplicitTrainingData(x, x ** 2 + 3.5 * x))
            size = [n, n - 1, n // 2][r % 3]
            red = [None, True, False][(r // 3) % 3]
            ev = RandomSubsetEvaluation(fit, size) if red is None else RandomSubsetEvaluation(fit, size, redundant=red)
            pop, marked = [], []
            for k in range(rng.randint(2, 6)):
                g = AGraph(equation=rng.choice(["X_0", "X_0*X_0", "X_0 + 1.5", "2.0*X_0 - X_0*X_0", "X_0*X_0 + 3.5*X_0"]))
                if rng.random() < 0.6:
                    g.fitness = 1234.5 + k
                    marked.append(k)
                pop.append(g)
            counter.value = 0
            c0 = fit.eval_count
            ev(pop)
            real, rep_ = counter.value, fit.eval_count - c0
            due = len(pop) if red in (None, True) else len(pop) - len(marked)
            out["subset_phase_checks"] += 1
            tag = "RandomSubsetEvaluation(subset %d of %d points, redundant=%r), %d individuals of which %s marked" % (size, n, red, len(pop), marked)
            if real != due or rep_ != due:
                out["viol"].append("%s: %d evaluations were due, the fitness function was invoked %d times and reports %d" % (tag, due, real, rep_))
                continue
            for k, g in enumerate(pop):
                want = float(fit(g)) if (red in (None, True) or k not in marked) else 1234.5 + k
                if not g.fit_set or not (float(g.fitness) == want or (np.isnan(g.fitness) and np.isnan(want))):
                    out["viol"].append("%s: slot %d holds fitness %r (flag %r), due is %r" % (tag, k, g.fitness, g.fit_set, want))
                    break
    finally:
        for cls, name, orig in saved:
            setattr(cls, name, orig)
    return out


def impl_main(payload):
    results = []
    for c in payload["cases"]:
        out, viol = run_phase_case(c)
        results.append(dict(out=out, viol=viol))
    hist = history_runs(payload.get("history_runs", 0), payload.get("seed", 0))
    return dict(results=results, hist=hist)


def check(rep, proof, pid="C19"):
    rng = random.Random(rep.seed)
    n = 700 if rep.tier == "quick" else 12000
    cases = [gen_case(rng) for _ in range(n)]
    rc, res, out, wall = vlib.run_impl("c19", dict(cases=cases, history_runs=11 if rep.tier == "quick" else 110, seed=rep.seed),
                                       timeout=3400)
    if res is None:
        rep.violation("implementation harness crashed", dict(relation="corr_C19_evalphase", log=out[-3000:]), has_input=False)
        return
    results, hist = res["results"], res["hist"]
    oracle_bad = [(i, r["viol"]) for i, r in enumerate(results) if r["viol"]]
    pairs = [(coq_case(c), r["out"]) for c, r in zip(cases, results)]
    bad, log = vlib.coq_compare("c19", HEADER, RUNNER, pairs)
    rep.coverage.update(
        evaluations=len(cases) + hist["checks"],
        distinct_nontrivial=len({repr(c) for c in cases if len(c["pop"]) >= 2}),
        rule="one real Evaluation.__call__ per case on 0-9 individuals with mixed evaluated flags, redundant on/off, serial or a "
             "pool of 1-3 worker processes, through the real LocalOptFitnessFunction wrapping a counting base function and a toy "
             "optimizer that invokes it 0-2 times; a quarter of the cases use a base function that raises for some genomes (the phase "
             "must then raise, serially and from the workers, and never return with a due individual unevaluated); reported count compared with a cross-process independent counter and with "
             "Model/EvalPhase.v; plus real Island/SerialArchipelago histories (ExplicitRegression, scipy local optimisation, "
             "2 workers, RandomSubsetEvaluation) checked after every evolve; non-trivial = at least two individuals",
        samples=[cases[0]] + hist["samples"][:2],
        correspondence=dict(cases=len(cases), disagreements=len(bad)),
        history=dict(runs=hist["runs"], count_checks=hist["checks"], subset_phase_checks=hist.get("subset_phase_checks", 0),
                     violations=len(hist["viol"])),
        oracle_violations=len(oracle_bad) + len(hist["viol"]),
        distribution=dict(multiprocess=sum(c["multi"] for c in cases), redundant=sum(c["red"] for c in cases),
                          raising_fitness_function=sum(bool(c.get("fault")) for c in cases),
                          phases_that_raised=sum(r["out"] == [-99] for r in results),
                          phases_that_raised_in_worker_processes=sum(r["out"] == [-99] and c["multi"] for c, r in zip(cases, results))),
    )
    rep.assumptions += [
        "pickling an individual / a fitness function for a worker = an independent copy (fresh object) with the same fields",
        "Pool results are consumed in submission order (res.get() blocks); worker crashes are not modelled",
        "island / archipelago histories are checked against an independent counter (test), the theorem is about one phase and the sum over islands",
    ]
    if oracle_bad:
        i, v = oracle_bad[0]
        rep.violation("; ".join(v[:3]), dict(case=cases[i], observed=results[i]["out"], oracle=v))
    elif hist["viol"]:
        rep.violation(hist["viol"][0], dict(kind="island/archipelago history", detail=hist["viol"][:5]))
    elif bad:
        first = bad[0]
        j = None if isinstance(first, tuple) else first
        mo = None if j is None else vlib.coq_eval_one(HEADER, "%s %s" % (RUNNER, pairs[j][0]))
        rep.violation("model and implementation disagree; property oracle found no failing input",
                      dict(relation="corr_%s_evalphase (Model/EvalPhase.v vs Evaluation.__call__)" % pid,
                           case=None if j is None else cases[j], implementation=None if j is None else results[j]["out"],
                           model=mo, disagreements=len(bad), log=log[-1500:]), has_input=False)
    if not proof["ok"] and not rep.violations:
        rep.violation("proof obligation no longer checks: %s" % proof["broken"],
                      dict(theorem=proof["broken"], log=proof["log"][-3000:]), has_input=False)

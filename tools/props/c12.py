"""C12: parallel archipelago evolution terminates cleanly under every interleaving.
The real ParallelArchipelago runs on a deterministic stand-in for mpi4py (tools/vendor/mpi4py: one thread per rank, a scheduler
driven by a list of choices decides which rank performs its next communicator call, buffered delivery).  The sequence of calls
that belong to _non_blocking_execution (evolve slices, iprobe/recv/isend with the AGE_UPDATE / EXIT_NOTIFICATION tags, barrier)
is replayed through the Coq transition system (Model/ParArch.v): same call sequence, same final ages, empty mailboxes.
Oracle on the real run: no deadlock, return on every rank, no stale message, age targets, agreement of all ranks afterwards."""
import random

import vlib

HEADER = """From Bingo Require Import Model.ParArch.
From Coq Require Import ZArith List Bool.
Import ListNotations.
Open Scope Z_scope.
Definition code (p : pc) : Z :=
  match p with Evolve => 1 | Probe _ => 2 | Recv _ _ => 3 | SendExit _ => 4 | SendAge => 5 | ProbeExit => 6 | RecvExit => 7
             | BarArrive => 8 | BarLeave => 9 | Done => 0 end.
Fixpoint trace (n : nat) (sync target : Z) (sched : list nat) (s : state) (acc : list Z) : list Z * state :=
  match sched with
  | [] => (acc, s)
  | r :: q => match step n sync target s r with
              | Some s' => trace n sync target q s' (acc ++ [code (nth r (pcs s) Done)])
              | None => (acc ++ [(-5)], s)
              end
  end.
Definition runner (c : nat * Z * Z * Z * list Z * list nat) : list Z :=
  let '(n, sync, arch_age, steps, ages, sched) := c in
  let '(tr, s) := trace n sync (arch_age + steps) sched (init n (arch_age + steps) ages arch_age) [] in
  tr ++ [(-7777)] ++ age s ++ [(-7776); Z.of_nat (length (mbox s)); Z.of_nat (length (filter (fun b : bool => b) (exitf s)));
                                (if final s then 1 else 0)]."""
RUNNER = "runner"


def gen_case(rng):
    n = rng.choice([1, 2, 2, 3, 3, 4, 5])
    sync = rng.choice([1, 2, 3, 5])
    calls = []
    for _ in range(rng.choice([1, 1, 2, 3])):
        calls.append(dict(steps=rng.choice([0, 1, 2, 3, 5, 7]), non_blocking=rng.random() < 0.85))
    # relative speeds: every rank is chosen with a weight; a generation slice occupies a rank for [cost] scheduler steps, so that
    # helpers cannot produce age updates faster than rank 0 receives them (the premise of the property)
    bias = rng.choice(["uniform", "slow0", "fast0", "slowlast"])
    weights = {"uniform": [1] * n, "slow0": [1] + [2] * (n - 1), "fast0": [4] + [1] * (n - 1), "slowlast": [2] * (n - 1) + [1]}[bias][:n]
    pool = [r for r in range(n) for _ in range(weights[r])]
    choices = [rng.choice(pool) for _ in range(6000)]
    return dict(n=n, sync=sync, calls=calls, choices=choices, seed=rng.randrange(1 << 30), bias=bias, cost=4 * n + 2)


def coq_case(c):
    return "(%d%%nat, %s, %s, %s, %s, %s)" % (c["n"], vlib.cz(c["sync"]), vlib.cz(c["arch_age"]), vlib.cz(c["steps"]),
                                              vlib.clist(c["ages"]), vlib.clist(c["sched"], lambda r: "%d%%nat" % r) if c["sched"] else "(@nil nat)")


def impl_main(payload):
    import sys
    import os
    sys.path.insert(0, os.path.join(os.path.dirname(os.path.dirname(os.path.abspath(__file__))), "vendor"))
    import numpy as np
    import mpi4py.MPI as MPI
    from bingo.chromosomes.multiple_values import MultipleValueChromosome
    from bingo.evolutionary_optimizers.island import Island
    from bingo.evolutionary_algorithms.ea_diagnostics import EaDiagnostics
    from bingo.evolutionary_optimizers.parallel_archipelago import ParallelArchipelago
    from bingo.stats.hall_of_fame import HallOfFame

    class StubEval:
        eval_count = 0

        def __call__(self, population):
            for ind in population:
                if not ind.fit_set:
                    ind.fitness = float(ind.values[0])      # the second gene only names the individual: ties between different individuals
                    self.eval_count += 1

    class StubEA:
        def __init__(self):
            self.evaluation = StubEval()
            self.diagnostics = EaDiagnostics()

        def generational_step(self, population):
            self.evaluation(population)
            return population

    class YieldIsland(Island):
        def evolve(self, num_generations, hall_of_fame_update=True, suppress_logging=False):
            MPI._SIM.yield_("evolve", num_generations)
            for _ in range(self.slice_cost - 1):       # a generation slice occupies the rank for a while
                MPI._SIM.yield_("work")
            super().evolve(num_generations, hall_of_fame_update=hall_of_fame_update, suppress_logging=suppress_logging)

    CODE = {("evolve", None): 1}
    out_cases, exp, viol = [], [], []
    stats = dict(runs=0, calls=0, nonblocking_calls=0, events=0, deadlocks=0, f13=0, max_msgs_pending=0)
    f13_examples = []
    mig = dict(checks=0, exchanging_ranks=0, viol=[])
    for case in payload["cases"]:
        n, sync = case["n"], case["sync"]
        rs = random.Random(case["seed"])
        vals = [[rs.randint(1, 50) for _ in range(4)] for _ in range(n)]
        sim = MPI.Simulation(n, case["choices"], max_steps=60000)
        marks = []                       # (event index at call start, rank) bookkeeping filled by rank 0 only

        def body(rank):
            rs_local = random.Random(case["seed"] * 31 + rank)

            def gen():
                return MultipleValueChromosome([rs_local.randint(1, 6 if case["seed"] % 2 else 50), rank * 1000 + rs_local.randint(0, 999)])

            isl = YieldIsland(StubEA(), gen, population_size=4, hall_of_fame=None)
            isl.slice_cost = case["cost"]
            for k_, ind_ in enumerate(isl.population):          # name tags survive the pickling of a migration (property C11)
                ind_.tag = rank * 1000 + k_
            res = []
            arch = None
            for ci, call in enumerate(case["calls"]):
                if arch is None or arch._non_blocking != call["non_blocking"]:
                    if arch is None:
                        arch = ParallelArchipelago(isl, hall_of_fame=HallOfFame(3), non_blocking=call["non_blocking"], sync_frequency=sync)
                    else:
                        arch._non_blocking = call["non_blocking"]
                tags0 = sorted(getattr(i_, "tag", -1) for i_ in isl.population)
                before = (isl.generational_age, arch.generational_age, arch._sync_frequency)
                sim.events.append((rank, "call_start", (ci, before)))
                arch.evolve(call["steps"])
                sim.events.append((rank, "call_end", (ci, isl.generational_age, arch.generational_age)))
                best = arch.get_best_fitness()
                evals = arch.get_fitness_evaluation_count()
                hof = [tuple(m.values) for m in arch.hall_of_fame] if arch.hall_of_fame is not None else None
                res.append(dict(tags0=tags0, tags1=sorted(getattr(i_, "tag", -1) for i_ in isl.population),
                                best=best, evals=evals, arch_age=arch.generational_age, island_age=isl.generational_age, hof=hof,
                                island_best=isl.get_best_fitness(), stale=[(s, t) for (s, t, _) in sim.mail[rank] if t in (2, 3)]))
            return res

        sim.run(body)
        stats["runs"] += 1
        tag = "ranks=%d sync=%d calls=%r schedule=%s seed=%d" % (n, sync, case["calls"], case["bias"], case["seed"])
        if sim.aborted:
            stats["flooding_or_starving"] = stats.get("flooding_or_starving", 0) + 1     # outside the premise of the property
            continue
        if sim.deadlock or sim.errors or len(sim.finished) < n:
            stats["deadlocks"] += int(sim.deadlock)
            viol.append("%s: %s" % (tag, "deadlock / no return on ranks %r" % sorted(set(range(n)) - sim.finished) if not sim.errors
                                    else "rank raised: %s" % list(sim.errors.values())[0][:400]))
            continue
        # ---- per call: filter the events of _non_blocking_execution and build the model case
        for ci, call in enumerate(case["calls"]):
            stats["calls"] += 1
            starts = {r: d[1] for (r, l, d) in sim.events if l == "call_start" and d[0] == ci}
            ends = {r: d for (r, l, d) in sim.events if l == "call_end" and d[0] == ci}
            ages0 = [starts[r][0] for r in range(n)]
            arch0 = starts[0][1]
            ages1 = [ends[r][1] for r in range(n)]
            res = [sim.results[r][ci] for r in range(n)]
            # migration (property C11, parallel case): the evolutionary algorithm of this harness is the identity, so the
            # populations change through migration only - nobody may be lost or duplicated, island sizes stay
            mig["checks"] += 1
            all0 = sorted(t for r in range(n) for t in res[r]["tags0"])
            all1 = sorted(t for r in range(n) for t in res[r]["tags1"])
            if all0 != all1:
                mig["viol"].append("%s call %d: the multiset of individuals over the ranks changed: %d before, %d after, lost %r, new or duplicated %r"
                                   % (tag, ci, len(all0), len(all1), sorted(set(all0) - set(all1))[:6],
                                      [t for t in set(all1) if all1.count(t) > all0.count(t)][:6]))
            elif [len(res[r]["tags1"]) for r in range(n)] != [len(res[r]["tags0"]) for r in range(n)]:
                mig["viol"].append("%s call %d: island sizes changed from %r to %r" % (tag, ci, [len(res[r]["tags0"]) for r in range(n)],
                                                                                       [len(res[r]["tags1"]) for r in range(n)]))
            moved = sum(1 for r in range(n) if res[r]["tags0"] != res[r]["tags1"])
            mig["exchanging_ranks"] += moved
            # oracle
            for r in range(n):
                if res[r]["stale"]:
                    viol.append("%s: after call %d rank %d still holds undelivered messages (source, tag) %r" % (tag, ci, r, res[r]["stale"]))
            if not call["non_blocking"]:
                if any(a1 - a0 != call["steps"] for a0, a1 in zip(ages0, ages1)):
                    viol.append("%s: blocking call %d: island ages %r -> %r, requested %d" % (tag, ci, ages0, ages1, call["steps"]))
            else:
                stats["nonblocking_calls"] += 1
                if sum(ages1) < n * (arch0 + call["steps"]):
                    viol.append("%s: non-blocking call %d: mean island age %.3f below the target %d" % (tag, ci, sum(ages1) / n, arch0 + call["steps"]))
                if sum(ages1) - sum(ages0) < n * call["steps"]:
                    if any(a > arch0 for a in ages0):
                        stats["f13"] += 1          # known finding F13: helpers were ahead of the archipelago age when the call began
                        if len(f13_examples) < 2:
                            f13_examples.append("%s call %d: ages %r -> %r, requested %d" % (tag, ci, ages0, ages1, call["steps"]))
                    else:
                        viol.append("%s: non-blocking call %d: the mean island age advanced by %.3f, requested %d (ages %r -> %r)"
                                    % (tag, ci, (sum(ages1) - sum(ages0)) / n, call["steps"], ages0, ages1))
            for key in ("best", "evals", "arch_age", "hof"):
                if any(res[r][key] != res[0][key] for r in range(n)):
                    viol.append("%s: after call %d the ranks disagree on %s: %r" % (tag, ci, key, [res[r][key] for r in range(n)]))
            if res[0]["best"] != min(res[r]["island_best"] for r in range(n)):
                viol.append("%s: after call %d the reported best fitness %r is not the minimum over the islands %r"
                            % (tag, ci, res[0]["best"], [res[r]["island_best"] for r in range(n)]))
            if res[0]["arch_age"] != arch0 + call["steps"]:
                viol.append("%s: archipelago age %r after call %d, expected %d" % (tag, res[0]["arch_age"], ci, arch0 + call["steps"]))
            if not call["non_blocking"]:
                continue
            # correspondence case: the calls inside this evolve, in execution order
            inside = {r: False for r in range(n)}
            sched, codes = [], []
            for (r, l, d) in sim.events:
                if l == "call_start":
                    inside[r] = (d[0] == ci)
                    continue
                if l == "call_end":
                    inside[r] = False
                    continue
                if not inside[r]:
                    continue
                c = None
                if l == "evolve":
                    c = 1
                elif l == "iprobe" and d[1] == 2:
                    c = 2
                elif l == "recv" and d[1] == 2:
                    c = 3
                elif l == "isend" and d[1] == 3:
                    c = 4
                elif l == "isend" and d[1] == 2:
                    c = 5
                elif l == "iprobe" and d[1] == 3:
                    c = 6
                elif l == "recv" and d[1] == 3:
                    c = 7
                elif l == "barrier_arrive":
                    c = 8
                elif l == "barrier_leave":
                    c = 9
                if c is not None:
                    sched.append(r)
                    codes.append(c)
            stats["events"] += len(sched)
            if len(sched) > 2500:
                continue                  # keep the Coq literal small
            out_cases.append(dict(n=n, sync=starts[0][2] if call["steps"] >= starts[0][2] else 1, arch_age=arch0, steps=call["steps"], ages=ages0, sched=sched))
            exp.append(codes + [-7777] + ages1 + [-7776, 0, 0, 1])
    return dict(cases=out_cases, exp=exp, viol=viol, stats=stats, f13_examples=f13_examples, migration=mig)


def check(rep, proof):
    rng = random.Random(rep.seed)
    n = 150 if rep.tier == "quick" else 2500
    cases = [gen_case(rng) for _ in range(n)]
    # F13 scenario: a fast helper, then a second call
    cases.append(dict(n=2, sync=2, calls=[dict(steps=6, non_blocking=True), dict(steps=6, non_blocking=True)],
                      choices=[1, 1, 1, 1, 0] * 1500, seed=5, bias="fast helper", cost=2))
    rc, res, out, wall = vlib.run_impl("c12", dict(cases=cases, seed=rep.seed), timeout=3400)
    if res is None:
        rep.violation("implementation harness crashed", dict(relation="corr_C12_pararch", log=out[-3000:]), has_input=False)
        return
    ccases, exp, stats = res["cases"], res["exp"], res["stats"]
    pairs = [(coq_case(c), e) for c, e in zip(ccases, exp)]
    bad, log = vlib.coq_compare("c12", HEADER, RUNNER, pairs, shard=40)
    rep.coverage.update(
        evaluations=stats["events"],
        distinct_nontrivial=len({(c["n"], c["sync"], repr(c["calls"]), c["bias"], c["seed"]) for c in cases}),
        rule="the real ParallelArchipelago (real Island, stub evolutionary algorithm, hall of fame) on a deterministic mpi4py stand-in "
             "with 1-5 ranks, sync frequencies 1-10, 1-3 consecutive evolve calls of 0-12 generations (blocking and non-blocking), and "
             "uniform / slow-rank-0 / fast-rank-0 / slow-last-rank schedules at communicator-call granularity; the call sequence of "
             "every non-blocking call is replayed through the Coq transition system (same calls in the same order, same final ages, "
             "empty mailboxes, all ranks Done); oracle on the real run: no deadlock, return on all ranks, no stale AGE_UPDATE/"
             "EXIT_NOTIFICATION message, age targets, agreement on best fitness / evaluation count / age / hall of fame, best = min",
        samples=[dict(n=cases[0]["n"], sync=cases[0]["sync"], calls=cases[0]["calls"], schedule=cases[0]["bias"])],
        correspondence=dict(cases=len(ccases), disagreements=len(bad)),
        implementation_stats=stats, oracle_violations=len(res["viol"]),
    )
    rep.assumptions += [
        "tools/vendor/mpi4py is a stand-in: buffered isend, iprobe(ANY_SOURCE) reports the earliest pending message, collectives are "
        "rendez-vous; real MPI progress/eager-limit behaviour is not modelled (the property's premise 'buffered delivery of small messages')",
        "liveness is proved as bounded pieces (see Properties/C12.v); fairness of the real scheduler is an assumption of the property",
        "migration (bcast + sendrecv) and the closing collectives run in the real code under the same scheduler but are not part of the "
        "transition system; NaN fitness values are not generated here (C15 covers the choice of the best)",
    ]
    for f in vlib.load_findings("C12"):
        if f["id"] == "F13" and stats["f13"]:
            rep.known.append("%s %s" % (f["id"], f["what"][:200]))
    if res["viol"]:
        rep.violation(res["viol"][0][:700], dict(oracle=res["viol"][:5], how="tools/props/c12.py impl_main (seed %d)" % rep.seed))
    elif bad:
        first = bad[0]
        j = None if isinstance(first, tuple) else first
        mo = None if j is None else vlib.coq_eval_one(HEADER, "%s %s" % (RUNNER, pairs[j][0]))
        rep.violation("model and implementation disagree; property oracle found no failing input",
                      dict(relation="corr_C12_pararch (Model/ParArch.v vs ParallelArchipelago on the stand-in)", case=None if j is None else ccases[j],
                           implementation=None if j is None else exp[j][:300], model=None if mo is None else mo[:300],
                           disagreements=len(bad), log=log[-1500:]), has_input=False)
    if not proof["ok"] and not rep.violations:
        rep.violation("proof obligation no longer checks: %s" % proof["broken"],
                      dict(theorem=proof["broken"], log=proof["log"][-3000:]), has_input=False)

"""C02: gradients are the true partial derivatives of the evaluated function."""
import math
import random

import vlib
from props import c01

HEADER = """From Bingo Require Import Lib.Alg Gen.OpDefs Gen.OpEval Model.Stack Model.Reverse Model.TermAlg.
From Coq Require Import ZArith List Bool.
Import ListNotations.
Open Scope Z_scope.
Definition runner (c : list (Z * Z * Z) * bool * nat * list (list Z) * list Z) : list Z :=
  let '(s, wrt_x, ncols, X, cs) := c in
  flat_map (fun row =>
     let '(v, d) := eval_with_derivative z_alg s (fun k => nth (Z.to_nat k) row 0) (fun k => nth (Z.to_nat k) cs 0) wrt_x ncols in
     (-7777) :: v :: d) X."""
RUNNER = "runner"


def gen_case(rng):
    D, L = rng.randint(1, 3), rng.randint(0, 3)
    s = c01.gen_stack(rng, rng.randint(1, 12), D, L, [2, 3, 4, 4, 2, 3], int_values=(0, 1, 2, 3, -1, -2))
    M = rng.randint(1, 3)
    X = [[rng.randint(-3, 3) for _ in range(D)] for _ in range(M)]
    cs = [rng.randint(-2, 2) for _ in range(L)]
    wrt_x = rng.random() < 0.5
    return dict(stack=s, wrt_x=wrt_x, ncols=(D if wrt_x else L), X=X, cs=cs, D=D, L=L, M=M)


def coq_case(c):
    st = vlib.clist(c["stack"], lambda r: "(%s, %s, %s)" % (vlib.cz(r[0]), vlib.cz(r[1]), vlib.cz(r[2])))
    return "(%s, %s, %d%%nat, %s, %s)" % (st, vlib.cbool(c["wrt_x"]), c["ncols"], vlib.clist(c["X"], vlib.clist), vlib.clist(c["cs"]))


def impl_main(payload):
    import warnings
    import numpy as np
    from bingo.symbolic_regression.agraph.evaluation_backend import evaluation_backend as eb
    from bingo.symbolic_regression.agraph.simplification_backend import simplification_backend as sb
    from bingo.symbolic_regression.agraph.agraph import AGraph
    warnings.simplefilter("ignore")
    results = []
    for c in payload["cases"]:
        st = np.array(c["stack"], dtype=int).reshape(-1, 3)
        x = np.array(c["X"], dtype=float).reshape(c["M"], c["D"])
        cs = tuple(float(v) for v in c["cs"])
        viol = []
        try:
            f, d = eb.evaluate_with_derivative(st, x, cs, c["wrt_x"])
            f, d = np.asarray(f, dtype=float), np.asarray(d, dtype=float)
            plain = np.asarray(eb.evaluate(st, x, cs), dtype=float)
            if f.shape != (c["M"], 1) or d.shape != (c["M"], c["ncols"]):
                viol.append("shapes %r %r, expected (%d,1) (%d,%d)" % (f.shape, d.shape, c["M"], c["M"], c["ncols"]))
            if not np.array_equal(f, plain, equal_nan=True):
                viol.append("value returned with the gradient differs from plain evaluation")
            out = []
            for r in range(c["M"]):
                out += [-7777, int(f.reshape(-1)[r])] + [int(v) for v in d[r]]
        except Exception as e:  # noqa
            out = [-3]
            viol.append("raised %r" % (e,))
        results.append(dict(out=out, viol=viol))

    # ---------------- oracle: all operators, finite differences at admissible points
    orc = dict(checks=0, admissible=0, viol=[], samples=[])
    rng = random.Random(payload["seed"] + 11)
    rs = np.random.RandomState((payload["seed"] + 3) % 2 ** 31)
    allops = sorted(c01.ARITY2 | c01.UNARY)

    def rows_ok(stack, util, xrow, cs):
        vals = []
        with np.errstate(all="ignore"):
            for i, (n, p1, p2) in enumerate(stack):
                if not util[i]:
                    vals.append(0.0)
                    continue
                if n == -1:
                    v = float(p1)
                elif n == 0:
                    v = xrow[p1]
                elif n == 1:
                    v = cs[p1]
                else:
                    a = vals[p1]
                    b = vals[p2] if n in c01.ARITY2 else None
                    if util[i]:
                        if n == 5 and abs(b) < 0.05:
                            return False
                        if n == 10 and a < 0.1:
                            return False
                        if n == 13 and abs(a) < 0.1:
                            return False
                        if n in (9, 11, 12) and abs(a) < 0.05:
                            return False
                    v = float(c01.ref_eval(stack[:i + 1], xrow, cs))
                if util[i] and (not math.isfinite(v) or abs(v) > 1e4):
                    return False
                vals.append(v)
        return True

    for t in range(payload["oracle_runs"]):
        D = rng.randint(1, 3)
        base = c01.gen_stack(rng, rng.randint(1, 14), D, 3, allops, int_values=(1, 2, 3, -1, -2))
        g = AGraph()
        g.command_array = np.array(base, dtype=int)
        L = g.get_number_local_optimization_params()
        cs = rs.uniform(0.3, 2.0, size=L) * rs.choice([-1, 1], size=L)
        # constants arrive as a numpy vector (what scipy hands over) or as plain Python floats (what a user sets)
        g.set_local_optimization_params(cs if t % 2 == 0 else [float(v) for v in cs])
        M = 3
        x = rs.uniform(0.3, 2.0, size=(M, D)) * rs.choice([-1, 1], size=(M, D))
        util = sb.get_utilized_commands(np.array(base, dtype=int))
        cmap, k = {}, 0
        for i, row in enumerate(base):
            if util[i] and row[0] == 1:
                cmap[i] = k
                k += 1
        st2 = [list(r) for r in base]
        for i, j in cmap.items():
            st2[i] = [1, j, j]
        try:
            f0 = g.evaluate_equation_at(x)
            fx, dfdx = g.evaluate_equation_with_x_gradient_at(x)
            fc, dfdc = g.evaluate_equation_with_local_opt_gradient_at(x)
        except Exception as e:  # noqa
            orc["viol"].append("gradient evaluation raised %r for stack %r" % (e, base))
            continue
        orc["checks"] += 1
        f0a, fxa, fca = np.asarray(f0), np.asarray(fx), np.asarray(fc)
        # known finding F9b: when evaluation raises internally (plain evaluation is NaN everywhere) the gradient entry points
        # return the VALUE as an all-NaN array shaped like the gradient (M-by-D, M-by-L) instead of M-by-1
        # (plain evaluation may be -inf there, e.g. log|0| of a constant-only sub-expression: the forward pass survives, the
        # reverse pass divides by zero; the point is outside the property's domain either way)
        raised = f0a.shape == (M, 1) and not bool(np.any(np.isfinite(f0a)))
        f9b_x = raised and fxa.shape == (M, D) and bool(np.all(np.isnan(fxa)))
        f9b_c = raised and fca.shape == (M, L) and bool(np.all(np.isnan(fca)))
        okx = np.array_equal(f0a, fxa, equal_nan=True) or f9b_x
        okc = np.array_equal(f0a, fca, equal_nan=True) or f9b_c
        orc["f9b_instances"] = orc.get("f9b_instances", 0) + int((f9b_x and fxa.shape != (M, 1)) or (f9b_c and fca.shape != (M, 1)))
        if not (okx and okc):
            orc["viol"].append("the value returned together with a gradient differs from plain evaluation; stack %r" % (base,))
        used_x = {row[1] for i, row in enumerate(base) if util[i] and row[0] == 0}
        finite_rows = np.isfinite(f0a.reshape(-1)) if f0a.shape == (M, 1) else np.zeros(M, dtype=bool)
        for kcol in range(D):
            # only where the function is finite: a NaN value has no derivative to speak of
            if kcol not in used_x and np.any(np.asarray(dfdx)[finite_rows, kcol] != 0):
                orc["viol"].append("input X_%d is not used but its derivative is %r; stack %r" % (kcol, np.asarray(dfdx)[:, kcol].tolist(), base))
        for r in range(M):
            if not rows_ok(st2, util, x[r], cs):
                continue
            orc["admissible"] += 1
            h = 1e-6
            for kcol in range(D):
                xp, xm = x[r].copy(), x[r].copy()
                xp[kcol] += h
                xm[kcol] -= h
                fd = (float(c01.ref_eval(st2, xp, cs)) - float(c01.ref_eval(st2, xm, cs))) / (2 * h)
                xp[kcol] += 2 * h
                xm[kcol] -= 2 * h
                fd3 = (float(c01.ref_eval(st2, xp, cs)) - float(c01.ref_eval(st2, xm, cs))) / (6 * h)
                if not (math.isfinite(fd3) and abs(fd - fd3) <= 2e-5 * (1 + abs(fd))):
                    continue        # the difference quotient itself has not converged (rapidly varying function): no verdict
                an = float(np.asarray(dfdx)[r, kcol])
                if math.isfinite(fd) and not (abs(an - fd) <= 2e-4 * (1 + abs(fd))):
                    orc["viol"].append("d/dX_%d at %r is %r, finite differences of the evaluated function give %r; stack %r constants %r"
                                       % (kcol, x[r].tolist(), an, fd, base, cs.tolist()))
            for j in range(L):
                cp, cm = cs.copy(), cs.copy()
                cp[j] += h
                cm[j] -= h
                fd = (float(c01.ref_eval(st2, x[r], cp)) - float(c01.ref_eval(st2, x[r], cm))) / (2 * h)
                cp[j] += 2 * h
                cm[j] -= 2 * h
                fd3 = (float(c01.ref_eval(st2, x[r], cp)) - float(c01.ref_eval(st2, x[r], cm))) / (6 * h)
                if not (math.isfinite(fd3) and abs(fd - fd3) <= 2e-5 * (1 + abs(fd))):
                    continue
                an = float(np.asarray(dfdc)[r, j])
                if math.isfinite(fd) and not (abs(an - fd) <= 2e-4 * (1 + abs(fd))):
                    orc["viol"].append("d/dC_%d at %r is %r, finite differences give %r; stack %r constants %r"
                                       % (j, x[r].tolist(), an, fd, base, cs.tolist()))
        if len(orc["samples"]) < 2:
            orc["samples"].append(dict(stack=base))
    # ---- every operator at arguments of magnitude 1e-9 and 1e6 (where finite differences say nothing): exact derivatives from
    # sympy in 40-digit arithmetic; a rule with a hidden absolute tolerance is wrong at one of the scales
    try:
        import sympy as sp
        X0, X1, C0, C1 = sp.symbols("X0 X1 C0 C1", real=True)
        u, v = C0 * X0, C1 * X1
        forms = {2: u + v, 3: u - v, 4: u * v, 5: u / v, 6: sp.sin(u), 7: sp.cos(u), 8: sp.exp(u), 9: sp.log(sp.Abs(u)), 10: sp.Abs(u) ** v,
                 11: sp.Abs(u), 12: sp.sqrt(sp.Abs(u)), 13: sp.Abs(u) ** v, 14: sp.sinh(u), 15: sp.cosh(u)}
        for op, expr in sorted(forms.items()):
            stack = [[1, 0, 0], [0, 0, 0], [4, 0, 1], [1, 1, 1], [0, 1, 1], [4, 3, 4], [op, 2, 5]]
            for scale in (2e-9, 1.0, 3e5):
                if op in (8, 14, 15) and scale > 1:
                    continue
                if op in (10, 13) and scale != 1.0:
                    pt = {X0: sp.Float(scale, 40), X1: sp.Float(1.0, 40), C0: sp.Float(1.5, 40), C1: sp.Float(0.5, 40)}
                else:
                    pt = {X0: sp.Float(scale, 40), X1: sp.Float(-1.5 * scale, 40), C0: sp.Float(1.5, 40), C1: sp.Float(-0.5, 40)}
                g = AGraph()
                g.command_array = np.array(stack, dtype=int)
                g.set_local_optimization_params([float(pt[C0]), float(pt[C1])])
                xx = np.array([[float(pt[X0]), float(pt[X1])]])
                _, dfdx = g.evaluate_equation_with_x_gradient_at(xx)
                _, dfdc = g.evaluate_equation_with_local_opt_gradient_at(xx)
                got = list(np.asarray(dfdx, dtype=float).reshape(-1)) + list(np.asarray(dfdc, dtype=float).reshape(-1))
                want = [float(sp.diff(expr, w).evalf(40, subs=pt)) for w in (X0, X1, C0, C1)]
                orc["checks"] += 1
                for nm, a_, b_ in zip(("X_0", "X_1", "C_0", "C_1"), got, want):
                    if math.isfinite(b_) and not abs(a_ - b_) <= 1e-9 * abs(b_) + 1e-300:
                        orc["viol"].append("d/d%s of command %d applied to (C_0*X_0, C_1*X_1) at x=%r constants %r is %r, exact %r"
                                           % (nm, op, xx[0].tolist(), [float(pt[C0]), float(pt[C1])], a_, b_))
                        break
    except ImportError:
        pass
    # known finding F9b: value shape in the exception branch of the gradient entry points
    g = AGraph()
    g.command_array = np.array([[-1, 1, 1], [-1, 0, 0], [5, 0, 1]], dtype=int)
    fx, _ = g.evaluate_equation_with_x_gradient_at(np.ones((3, 2)))
    f9b = np.asarray(fx).shape != (3, 1)
    return dict(results=results, oracle=orc, f9b=bool(f9b))


def check(rep, proof):
    rng = random.Random(rep.seed)
    n = 1200 if rep.tier == "quick" else 30000
    cases = [gen_case(rng) for _ in range(n)]
    rc, res, out, wall = vlib.run_impl("c02", dict(cases=cases, seed=rep.seed,
                                                   # a broken proof / translation widens the search for a failing input
                                                   oracle_runs=(300 if rep.tier == "quick" else 12000) if proof["ok"] else 6000),
                                       timeout=3400)
    if res is None:
        rep.violation("implementation harness crashed", dict(relation="corr_C02_reverse", log=out[-3000:]), has_input=False)
        return
    results, orc = res["results"], res["oracle"]
    oracle_bad = [(i, r["viol"]) for i, r in enumerate(results) if r["viol"]]
    pairs = [(coq_case(c), r["out"]) for c, r in zip(cases, results)]
    bad, log = vlib.coq_compare("c02", HEADER, RUNNER, pairs, shard=300)
    rep.coverage.update(
        evaluations=len(cases) + orc["checks"],
        distinct_nontrivial=len({repr(c["stack"]) for c in cases if len(c["stack"]) >= 3}),
        rule="polynomial stacks (+,-,*, loads, integers; sharing, repeated loads, p1 = p2, unused rows) on small-integer data: value "
             "and derivative matrices w.r.t. inputs or constants from the real evaluate_with_derivative compared exactly with the "
             "model over Z (sweep order, accumulation, column indexing, x/c switch); oracle: all 14 operators through AGraph, "
             "gradient against central finite differences of an independent evaluator at admissible points (power bases > 0, "
             "abs/sqrt/log arguments and denominators away from 0), exact zero for unused inputs, value = plain evaluation",
        samples=[cases[0]] + orc["samples"][:1],
        correspondence=dict(cases=len(cases), disagreements=len(bad)),
        oracle=dict(stacks=orc["checks"], admissible_points=orc["admissible"], violations=len(orc["viol"]),
                    instances_of_known_finding_F9b=orc.get("f9b_instances", 0)),
        oracle_violations=len(oracle_bad) + len(orc["viol"]),
    )
    rep.assumptions += [
        "theorems over the reals (Coquelicot); np.power(a,b) is a^b = exp(b ln a) on positive bases - the open set of the property",
        "tr_opeval.py (17 adjoint rules) is trusted; the rules are re-proved against calculus on every run",
        "float rounding is not modelled; the exception branch of the gradient entry points returns a value of the wrong shape (known finding F9b)",
    ]
    for f in vlib.load_findings("C02"):
        if f["id"] == "F9b" and res.get("f9b"):
            rep.known.append("%s %s" % (f["id"], f["what"][:160]))
    if oracle_bad:
        i, v = oracle_bad[0]
        rep.violation("; ".join(v[:3]), dict(case=cases[i], observed=results[i]["out"][:60], oracle=v))
    elif orc["viol"]:
        rep.violation(orc["viol"][0], dict(kind="finite-difference oracle", detail=orc["viol"][:4],
                                           how="tools/props/c02.py impl_main oracle (seed %d)" % rep.seed))
    elif bad:
        first = bad[0]
        j = None if isinstance(first, tuple) else first
        mo = None if j is None else vlib.coq_eval_one(HEADER, "%s %s" % (RUNNER, pairs[j][0]))
        rep.violation("model and implementation disagree; property oracle found no failing input",
                      dict(relation="corr_C02_reverse (Model/Reverse.v + Gen/OpEval.v vs evaluation_backend._reverse_eval)",
                           case=None if j is None else cases[j], implementation=None if j is None else results[j]["out"][:80],
                           model=None if mo is None else mo[:80], disagreements=len(bad), log=log[-1500:]), has_input=False)
    if not proof["ok"] and not rep.violations:
        rep.violation("proof obligation no longer checks: %s" % proof["broken"],
                      dict(theorem=proof["broken"], log=proof["log"][-3000:]), has_input=False)

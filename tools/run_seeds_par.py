#!/usr/bin/env python3
"""Parallel regression over the seeded changes: K workers, each with its own copy of /verif (built .vo files included) under
/tmp/vpar/vK and its own git worktree of /repo under /tmp/wt/parK (VERIF_REPO points the check at it), so /repo itself is never
touched.  Usage: tools/run_seeds_par.py K [name-prefix ...].  The copies and worktrees are removed at the end."""
import json, os, subprocess, sys, threading, queue, shutil
VERIF = os.path.dirname(os.path.dirname(os.path.abspath(__file__)))
K = int(sys.argv[1]); want = sys.argv[2:]
def sh(cmd, **kw):
    return subprocess.run(cmd, stdout=subprocess.PIPE, stderr=subprocess.STDOUT, text=True, **kw)
names = [n for n in sorted(os.listdir(os.path.join(VERIF, "seeded")))
         if os.path.exists(os.path.join(VERIF, "seeded", n, "patch.diff")) and (not want or any(n.startswith(w) for w in want))]
q = queue.Queue()
for n in names: q.put(n)
rows, lock = [], threading.Lock()
def worker(k):
    vdir, wt = "/tmp/vpar/v%d" % k, "/tmp/wt/par%d" % k
    os.makedirs("/tmp/vpar", exist_ok=True)
    sh(["rsync", "-a", "--delete", "--exclude", ".git", "--exclude", "work/*", "--exclude", "replay/*", VERIF + "/", vdir + "/"])
    sh(["git", "-C", "/repo", "worktree", "remove", "--force", wt]); shutil.rmtree(wt, ignore_errors=True)
    r = sh(["git", "-C", "/repo", "worktree", "add", "--detach", wt, "HEAD"])
    assert r.returncode == 0, r.stdout
    env = dict(os.environ, VERIF_REPO=wt)
    while True:
        try: name = q.get_nowait()
        except queue.Empty: break
        d = os.path.join(VERIF, "seeded", name)
        meta = {}
        try: meta = json.load(open(os.path.join(d, "meta.json")))
        except Exception: pass
        pids = meta.get("caught_by") or [meta.get("property", name.split("-")[0])[:3]]
        r = sh(["git", "-C", wt, "apply", os.path.join(d, "patch.diff")])
        if r.returncode != 0:
            row = (name, "NO-APPLY", r.stdout.strip()[:80])
        else:
            res = []
            for p in pids:
                c = sh([os.path.join(vdir, "check"), p], cwd=vdir, env=env)
                line = [l for l in c.stdout.splitlines() if l.startswith("VIOLATION")]
                res.append("%s rc=%d %s" % (p, c.returncode, "no-input" if line and line[0].endswith("no-failing-input-found") else ("input" if line else "")))
            caught = any(" rc=1 " in x + " " for x in res)
            row = (name, "CAUGHT" if caught else "MISSED", "; ".join(res))
            sh(["git", "-C", wt, "checkout", "--", "."]); sh(["git", "-C", wt, "clean", "-fdq"])
        with lock:
            rows.append(row); print("%-60s %-8s %s" % row, flush=True)
    sh(["git", "-C", "/repo", "worktree", "remove", "--force", wt]); shutil.rmtree(vdir, ignore_errors=True)
ts = [threading.Thread(target=worker, args=(k,)) for k in range(K)]
[t.start() for t in ts]; [t.join() for t in ts]
sh(["git", "-C", "/repo", "worktree", "prune"])
missed = [r for r in rows if r[1] != "CAUGHT"]
print("seeds %d caught %d not-caught %d" % (len(rows), len(rows) - len(missed), len(missed)))
for r in missed: print("NOT CAUGHT:", r)

"""helpers for the fail-closed Python-ast -> Gallina translators"""
import ast
import os
import sys
from fractions import Fraction


class Reject(Exception):
    pass


def parse(repo, rel):
    path = os.path.join(repo, rel)
    src = open(path).read()
    return src, ast.parse(src)


def find_class(tree, name):
    for n in tree.body:
        if isinstance(n, ast.ClassDef) and n.name == name:
            return n
    raise Reject("class %s not found" % name)


def find_func(node, name):
    for n in node.body:
        if isinstance(n, ast.FunctionDef) and n.name == name:
            return n
    raise Reject("function %s not found" % name)


def body_wo_doc(fn):
    b = fn.body
    if b and isinstance(b[0], ast.Expr) and isinstance(b[0].value, ast.Constant) and isinstance(b[0].value.value, str):
        b = b[1:]
    return b


def num_literal(src, node):
    """exact rational value of a numeric literal (decimal text, not the float)"""
    neg = False
    if isinstance(node, ast.UnaryOp) and isinstance(node.op, ast.USub):
        neg, node = True, node.operand
    if not (isinstance(node, ast.Constant) and isinstance(node.value, (int, float)) and not isinstance(node.value, bool)):
        raise Reject("numeric literal expected at line %d" % getattr(node, "lineno", -1))
    txt = ast.get_source_segment(src, node)
    f = Fraction(txt)
    return -f if neg else f


def coq_q(f):
    n = f.numerator
    return "(%s # %d)" % ("(%d)" % n if n < 0 else str(n), f.denominator)


def emit(outdir, name, text):
    os.makedirs(outdir, exist_ok=True)
    path = os.path.join(outdir, name)
    old = open(path).read() if os.path.exists(path) else None
    if old != text:
        open(path, "w").write(text)


def main(fn, outname):
    repo, outdir = sys.argv[1], sys.argv[2]
    try:
        text = fn(repo)
    except (Reject, SyntaxError, OSError, KeyError, IndexError, AttributeError, ValueError) as e:
        # fail closed: remove the stale generated file so nothing can be proved against it
        path = os.path.join(outdir, outname)
        base = path[:-2]
        for ext in (".v", ".vo", ".vos", ".vok", ".glob"):
            if os.path.exists(base + ext):
                os.remove(base + ext)
        print("REJECTED %s: %r" % (outname, e))
        sys.exit(1)
    emit(outdir, outname, text)
    print("ok", outname)

"""bingo/symbolic_regression/implicit_regression.py: the Gram-polynomial Savitzky-Golay helper functions and the index
arithmetic of the convolution -> coq/Gen/SavGol.v (exact rationals; fail-closed).

Grammar accepted for the three nested helper functions (integer parameters, rational results):
  stmt  ::= NAME = expr | NAME op= expr | for NAME in range(zexpr[, zexpr]): stmt+ | if ztest: stmt+ [elif/else ...] | return NAME
  expr  ::= number | NAME | expr (+|-|*|/) expr | -expr | helper(zexpr, ...)
  zexpr ::= integer | NAME | zexpr (+|-|*) zexpr | -zexpr
  ztest ::= zexpr (<|<=|>|>=|==) zexpr | ztest and ztest
Recursion (gram_polynomial on gp_k) becomes structural recursion on explicit fuel."""
import ast
import os
import sys
sys.path.insert(0, os.path.dirname(os.path.abspath(__file__)))
from trlib import *  # noqa

HELPERS = ("generalized_factorial", "gram_polynomial", "gram_weight")


class Tr:
    def __init__(self, src, zvars, rec_name=None):
        self.src, self.zvars, self.rec = src, set(zvars), rec_name

    # ---- integer expressions
    def z(self, e):
        if isinstance(e, ast.Constant) and isinstance(e.value, int) and not isinstance(e.value, bool):
            return "(%d)" % e.value if e.value < 0 else "%d" % e.value
        if isinstance(e, ast.Name) and e.id in self.zvars:
            return e.id
        if isinstance(e, ast.UnaryOp) and isinstance(e.op, ast.USub):
            return "(- %s)" % self.z(e.operand)
        if isinstance(e, ast.BinOp) and isinstance(e.op, (ast.Add, ast.Sub, ast.Mult)):
            op = {ast.Add: "+", ast.Sub: "-", ast.Mult: "*"}[type(e.op)]
            return "(%s %s %s)" % (self.z(e.left), op, self.z(e.right))
        raise Reject("not an integer expression at line %d: %s" % (e.lineno, ast.unparse(e)))

    def ztest(self, e):
        if isinstance(e, ast.BoolOp) and isinstance(e.op, ast.And):
            return "(" + " && ".join(self.ztest(v) for v in e.values) + ")"
        if isinstance(e, ast.Compare) and len(e.ops) == 1:
            a, b = self.z(e.left), self.z(e.comparators[0])
            op = e.ops[0]
            if isinstance(op, ast.Lt):
                return "(%s <? %s)" % (a, b)
            if isinstance(op, ast.LtE):
                return "(%s <=? %s)" % (a, b)
            if isinstance(op, ast.Gt):
                return "(%s <? %s)" % (b, a)
            if isinstance(op, ast.GtE):
                return "(%s <=? %s)" % (b, a)
            if isinstance(op, ast.Eq):
                return "(%s =? %s)" % (a, b)
        raise Reject("unsupported test at line %d: %s" % (e.lineno, ast.unparse(e)))

    # ---- rational expressions
    def q(self, e):
        if isinstance(e, ast.Constant) and isinstance(e.value, (int, float)) and not isinstance(e.value, bool):
            return coq_q(num_literal(self.src, e))
        if isinstance(e, ast.Name):
            if e.id in self.zvars:
                return "(inject_Z %s)" % e.id
            if e.id in self.qvars:
                return e.id
            raise Reject("unknown name %s at line %d" % (e.id, e.lineno))
        if isinstance(e, ast.UnaryOp) and isinstance(e.op, ast.USub):
            return "(- %s)" % self.q(e.operand)
        if isinstance(e, ast.BinOp) and isinstance(e.op, (ast.Add, ast.Sub, ast.Mult, ast.Div)):
            op = {ast.Add: "+", ast.Sub: "-", ast.Mult: "*", ast.Div: "/"}[type(e.op)]
            return "(%s %s %s)" % (self.q(e.left), op, self.q(e.right))
        if isinstance(e, ast.Call) and isinstance(e.func, ast.Name) and e.func.id in HELPERS and not e.keywords:
            args = " ".join(self.z(a) for a in e.args)
            if e.func.id == self.rec:
                return "(%s fuel' %s)" % (e.func.id, args)
            if e.func.id == "gram_polynomial":
                return "(gram_polynomial gp_fuel %s)" % args
            return "(%s %s)" % (e.func.id, args)
        raise Reject("unsupported expression at line %d: %s" % (e.lineno, ast.unparse(e)))

    qvars = set()


def tr_accumulate(fn, src):
    """NAME = init; for V in range(..): NAME op= expr; return NAME"""
    params = [a.arg for a in fn.args.args]
    body = body_wo_doc(fn)
    if len(body) != 3 or not isinstance(body[0], ast.Assign) or not isinstance(body[1], ast.For) or not isinstance(body[2], ast.Return):
        raise Reject("%s: expected init / for / return" % fn.name)
    acc = body[0].targets[0].id
    if ast.unparse(body[2].value) != acc:
        raise Reject("%s: returns something else than its accumulator" % fn.name)
    loop = body[1]
    if loop.orelse or len(loop.body) != 1 or not isinstance(loop.body[0], ast.AugAssign) or loop.body[0].target.id != acc:
        raise Reject("%s: loop body is not a single augmented assignment to the accumulator" % fn.name)
    it = loop.iter
    if not (isinstance(it, ast.Call) and ast.unparse(it.func) == "range" and 1 <= len(it.args) <= 2):
        raise Reject("%s: loop is not over range(..)" % fn.name)
    var = loop.target.id
    t = Tr(src, params + [var])
    t.qvars = {acc}
    lo = "0" if len(it.args) == 1 else t.z(it.args[0])
    hi = t.z(it.args[-1])
    op = {ast.Mult: "*", ast.Add: "+"}.get(type(loop.body[0].op))
    if op is None:
        raise Reject("%s: accumulator operator not supported" % fn.name)
    init = t.q(body[0].value)
    step = t.q(loop.body[0].value)
    return ("Definition %s (%s : Z) : Q :=\n  fold_left (fun (%s : Q) (%s : Z) => (%s %s %s)%%Q) (zrange %s %s) %s.\n"
            % (fn.name, " ".join(params), acc, var, acc, op, step, lo, hi, init))


def tr_recursive(fn, src):
    """if/elif/else chain assigning one variable, then return it; recursion through fuel"""
    params = [a.arg for a in fn.args.args]
    body = body_wo_doc(fn)
    if len(body) != 2 or not isinstance(body[0], ast.If) or not isinstance(body[1], ast.Return):
        raise Reject("%s: expected if-chain / return" % fn.name)
    res = ast.unparse(body[1].value)
    t = Tr(src, params, rec_name=fn.name)

    def chain(node):
        if not (len(node.body) == 1 and isinstance(node.body[0], ast.Assign) and node.body[0].targets[0].id == res):
            raise Reject("%s: branch is not a single assignment to %s" % (fn.name, res))
        then = t.q(node.body[0].value)
        if len(node.orelse) == 1 and isinstance(node.orelse[0], ast.If):
            els = chain(node.orelse[0])
        elif len(node.orelse) == 1 and isinstance(node.orelse[0], ast.Assign) and node.orelse[0].targets[0].id == res:
            els = t.q(node.orelse[0].value)
        else:
            raise Reject("%s: else branch not supported" % fn.name)
        return "(if %s then %s else %s)" % (t.ztest(node.test), then, els)
    return ("Fixpoint %s (fuel : nat) (%s : Z) : Q :=\n  match fuel with O => 0%%Q | S fuel' => %s%%Q end.\n"
            % (fn.name, " ".join(params), chain(body[0])))


def translate(repo):
    src, tree = parse(repo, "bingo/symbolic_regression/implicit_regression.py")
    sg = find_func(tree, "_savitzky_golay_gram")
    out = ["(* GENERATED by tools/translate/tr_sg.py from bingo/symbolic_regression/implicit_regression.py - do not edit *)",
           "From Coq Require Import ZArith QArith List.", "Import ListNotations.", "Open Scope Z_scope.", "",
           "Definition zrange (lo hi : Z) : list Z := map (fun n => lo + Z.of_nat n) (seq 0 (Z.to_nat (hi - lo))).", ""]
    helpers = {n.name: n for n in sg.body if isinstance(n, ast.FunctionDef)}
    if set(helpers) != set(HELPERS):
        raise Reject("helper functions changed: %r" % sorted(helpers))
    out.append(tr_accumulate(helpers["generalized_factorial"], src))
    out.append(tr_recursive(helpers["gram_polynomial"], src))
    out.append("Definition gp_fuel : nat := 8%nat.   (* recursion depth = order + 1 <= 8 is checked in the model *)")
    out.append(tr_accumulate(helpers["gram_weight"], src))
    # ---- the parameters bound at the top of _savitzky_golay_gram and the weight table fill
    text = ast.unparse(sg)
    need = ["n_order = order", "m_half_filter_size = (window_size - 1) // 2", "s_derivative_order = deriv",
            "weights[i + m_half_filter_size, j + m_half_filter_size] = gram_weight(i, j, m_half_filter_size, n_order, s_derivative_order)",
            "for i in range(-m_half_filter_size, m_half_filter_size + 1):",
            "for j in range(-m_half_filter_size, m_half_filter_size + 1):",
            "for k in range(-m_half_filter_size, m_half_filter_size + 1):",
            "con_f[i] += y[y_center + k] * weights[k + m_half_filter_size, w_ind]",
            "for i in range(y_len):", "con_f[i] = 0", "return con_f"]
    for n in need:
        if n not in text:
            raise Reject("_savitzky_golay_gram no longer contains: %s" % n)
    # ---- the three index regimes of the convolution
    conv = [st for st in ast.walk(sg) if isinstance(st, ast.If) and "y_center" in ast.unparse(st)
            and isinstance(st.test, ast.Compare) and ast.unparse(st.test.left) == "i"]
    if len(conv) != 1:
        raise Reject("index regime if-chain not found")
    t = Tr(src, ["i", "y_len", "m_half_filter_size"])

    def regimes(node):
        asg = {a.targets[0].id: a.value for a in node.body if isinstance(a, ast.Assign)}
        if set(asg) != {"y_center", "w_ind"} or len(node.body) != 2:
            raise Reject("index regime branch must assign y_center and w_ind")
        then = "(%s, %s)" % (t.z(asg["y_center"]), t.z(asg["w_ind"]))
        if len(node.orelse) == 1 and isinstance(node.orelse[0], ast.If):
            els = regimes(node.orelse[0])
        else:
            asg2 = {a.targets[0].id: a.value for a in node.orelse if isinstance(a, ast.Assign)}
            if set(asg2) != {"y_center", "w_ind"} or len(node.orelse) != 2:
                raise Reject("index regime else branch must assign y_center and w_ind")
            els = "(%s, %s)" % (t.z(asg2["y_center"]), t.z(asg2["w_ind"]))
        return "(if %s then %s else %s)" % (t.ztest(node.test), then, els)
    out.append("Definition conv_index (i y_len m_half_filter_size : Z) : Z * Z :=\n  %s.\n" % regimes(conv[0]))
    # ---- how _calculate_partials calls the filter and trims
    cp = find_func(tree, "_calculate_partials")
    calls = [n for n in ast.walk(cp) if isinstance(n, ast.Call) and ast.unparse(n.func) == "_savitzky_golay_gram"]
    if len(calls) != 1 or len(calls[0].args) != 4:
        raise Reject("_calculate_partials does not call the filter exactly once with 4 arguments")
    w, o, d = (int(num_literal(src, a)) for a in calls[0].args[1:])
    out.append("Definition sg_window : Z := %d.\nDefinition sg_order : Z := %d.\nDefinition sg_deriv : Z := %d." % (w, o, d))
    trims = set()
    for n in ast.walk(cp):
        if isinstance(n, ast.Subscript) and isinstance(n.slice, ast.Tuple) and isinstance(n.slice.elts[0], ast.Slice):
            sl = n.slice.elts[0]
            if sl.lower is not None and sl.upper is not None and ast.unparse(n.value) in ("time_deriv", "x_seg"):
                trims.add((int(num_literal(src, sl.lower)), int(num_literal(src, sl.upper))))
    if len(trims) != 1:
        raise Reject("trimming slices of x_seg and time_deriv differ or are missing: %r" % trims)
    lo, hi = trims.pop()
    if hi >= 0 or lo < 0:
        raise Reject("trim slice is not of the form [a:-b]")
    out.append("Definition trim_front : Z := %d.\nDefinition trim_back : Z := %d." % (lo, -hi))
    ar = [ast.unparse(n) for n in ast.walk(cp) if isinstance(n, ast.Call) and ast.unparse(n.func) == "np.arange"]
    if set(ar) != {"np.arange(start + %d, end - %d)" % (lo, -hi)}:
        raise Reject("retained-index arange does not match the trimming: %r" % ar)
    if "start = end + 1" not in ast.unparse(cp):
        raise Reject("segments no longer restart after the NaN row")
    return "\n".join(out) + "\n"


if __name__ == "__main__":
    main(translate, "SavGol.v")

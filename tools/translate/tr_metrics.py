"""bingo/evaluation/fitness_function.py (four metrics) and bingo/evaluation/gradient_mixin.py (four metric derivatives)
-> coq/Gen/Metrics.v over the reals (fail-closed).  A small typed translation of numpy expressions:
scalar S, vector V (shape (n,)), matrix M (shape (L, n): one row per parameter)."""
import ast
import os
import sys
from fractions import Fraction
sys.path.insert(0, os.path.dirname(os.path.abspath(__file__)))
from trlib import *  # noqa


def rlit(f):
    f = Fraction(f)
    if f.denominator == 1:
        return "(IZR (%d))" % f.numerator
    return "(IZR (%d) / IZR (%d))" % (f.numerator, f.denominator)


class E:
    def __init__(self, src, env):
        self.src, self.env = src, dict(env)

    def tr(self, e):
        if isinstance(e, ast.Constant) and isinstance(e.value, (int, float)) and not isinstance(e.value, bool):
            return rlit(num_literal(self.src, e)), "S"
        if isinstance(e, ast.Name):
            if e.id in self.env:
                return self.env[e.id]
            raise Reject("unknown name %s (line %d)" % (e.id, e.lineno))
        if isinstance(e, ast.Attribute) and ast.unparse(e) == "np.pi":
            return "PI", "S"
        if isinstance(e, ast.UnaryOp) and isinstance(e.op, ast.USub):
            t, ty = self.tr(e.operand)
            if ty == "S":
                return "(- %s)" % t, "S"
            if ty == "V":
                return "(vscale (-1) %s)" % t, "V"
            raise Reject("unary minus on a matrix")
        if isinstance(e, ast.BinOp):
            a, ta = self.tr(e.left)
            b, tb = self.tr(e.right)
            op = type(e.op)
            if (ta, tb) == ("S", "S") and op in (ast.Add, ast.Sub, ast.Mult, ast.Div):
                return "(%s %s %s)" % (a, {ast.Add: "+", ast.Sub: "-", ast.Mult: "*", ast.Div: "/"}[op], b), "S"
            if op is ast.Mult and (ta, tb) == ("S", "V"):
                return "(vscale %s %s)" % (a, b), "V"
            if op is ast.Mult and (ta, tb) == ("V", "S"):
                return "(vscale %s %s)" % (b, a), "V"
            if op is ast.Div and (ta, tb) == ("V", "S"):
                return "(vscale (/ %s) %s)" % (b, a), "V"
            if op is ast.Mult and (ta, tb) == ("V", "V"):
                return "(vmul %s %s)" % (a, b), "V"
            if op is ast.Mult and (ta, tb) == ("V", "M"):
                return "(mrowmul %s %s)" % (a, b), "M"
            raise Reject("unsupported operand types %s %s for %s (line %d)" % (ta, tb, op.__name__, e.lineno))
        if isinstance(e, ast.Call):
            fn = ast.unparse(e.func)
            kw = {k.arg: k.value for k in e.keywords}
            if fn == "len" and len(e.args) == 1:
                a, ta = self.tr(e.args[0])
                if ta == "V":
                    return "(vlen %s)" % a, "S"
            if fn == "individual.get_number_local_optimization_params" and not e.args:
                return "kparams", "S"
            if fn == "np.mean" and len(e.args) == 1:
                a, ta = self.tr(e.args[0])
                if ta == "V" and not kw:
                    return "(vmean %s)" % a, "S"
                if ta == "M" and set(kw) == {"axis"} and ast.unparse(kw["axis"]) == "1":
                    return "(mmean1 %s)" % a, "V"
            simple = {"np.abs": ("vabs", "Rabs"), "np.square": ("vsquare", None), "np.sign": ("vsign", "sign"),
                      "np.sqrt": (None, "sqrt"), "np.log": (None, "ln")}
            if fn in simple and len(e.args) == 1 and not kw:
                a, ta = self.tr(e.args[0])
                vf, sf = simple[fn]
                if ta == "V" and vf:
                    return "(%s %s)" % (vf, a), "V"
                if ta == "S" and sf:
                    return "(%s %s)" % (sf, a), "S"
                if ta == "S" and fn == "np.square":
                    return "(%s * %s)" % (a, a), "S"
        raise Reject("unsupported expression (line %d): %s" % (getattr(e, "lineno", -1), ast.unparse(e)))


def tr_function(src, fn, coq_name, argtypes):
    args = [a.arg for a in fn.args.args]
    if len(args) != len(argtypes):
        raise Reject("%s: unexpected signature %r" % (fn.name, args))
    env = {}
    params = []
    for a, ty in zip(args, argtypes):
        if ty == "I":
            params.append("(kparams : R)")
            continue
        env[a] = (a, ty)
        params.append("(%s : %s)" % (a, {"V": "list R", "M": "list (list R)"}[ty]))
    tr = E(src, env)
    lets = []
    body = body_wo_doc(fn)
    for st in body[:-1]:
        if not (isinstance(st, ast.Assign) and len(st.targets) == 1 and isinstance(st.targets[0], ast.Name)):
            raise Reject("%s: only simple assignments are supported (line %d)" % (fn.name, st.lineno))
        t, ty = tr.tr(st.value)
        nm = st.targets[0].id
        lets.append("let %s := %s in" % (nm, t))
        tr.env[nm] = (nm, ty)
    if not isinstance(body[-1], ast.Return):
        raise Reject("%s: does not end with return" % fn.name)
    t, ty = tr.tr(body[-1].value)
    return "Definition %s %s : %s :=\n  %s\n  %s.\n" % (coq_name, " ".join(params), {"S": "R", "V": "list R"}[ty],
                                                      "\n  ".join(lets), t), ty


def translate(repo):
    out = ["(* GENERATED by tools/translate/tr_metrics.py from bingo/evaluation/{fitness_function,gradient_mixin}.py - do not edit *)",
           "From Coquelicot Require Import Coquelicot.", "From Coq Require Import Reals List.", "From Bingo Require Import Lib.RVec.",
           "Import ListNotations.", "Open Scope R_scope.", ""]
    src, tree = parse(repo, "bingo/evaluation/fitness_function.py")
    for name, types in [("mean_absolute_error", "VI"), ("mean_squared_error", "VI"), ("root_mean_squared_error", "VI"),
                        ("negative_nmll_laplace", "VI")]:
        fn = find_func(tree, name)
        if name != "negative_nmll_laplace" and (len(fn.args.defaults) != 1 or ast.unparse(fn.args.defaults[0]) != "None"):
            raise Reject("%s signature changed" % name)
        text, ty = tr_function(src, fn, name, list(types))
        if ty != "S":
            raise Reject("%s does not return a scalar" % name)
        out.append(text)
    # which metric each name selects
    vb = find_class(tree, "VectorBasedFunction")
    sel = ast.unparse(find_func(vb, "__init__"))
    for key, fn in [("'mae'", "mean_absolute_error"), ("'mse'", "mean_squared_error"), ("'rmse'", "root_mean_squared_error"),
                    ("'negative nmll laplace'", "negative_nmll_laplace")]:
        i = sel.find(key)
        j = sel.find("self._metric = ", i)
        if i < 0 or j < 0 or not sel[j:].startswith("self._metric = " + fn):
            raise Reject("metric %s is no longer mapped to %s" % (key, fn))
    src2, tree2 = parse(repo, "bingo/evaluation/gradient_mixin.py")
    mix = find_class(tree2, "VectorGradientMixin")
    pairs = [("mean_absolute_error", "_mean_absolute_error_derivative"), ("mean_squared_error", "_mean_squared_error_derivative"),
             ("root_mean_squared_error", "_root_mean_squared_error_derivative"),
             ("negative_nmll_laplace", "_negative_nmll_laplace_derivative")]
    init = ast.unparse(find_func(mix, "__init__"))
    for m, d in pairs:
        if ("self._metric = %s\n" % m) not in init or ("self._metric_derivative = VectorGradientMixin.%s\n" % d) not in init:
            raise Reject("pairing of %s with %s not found in VectorGradientMixin.__init__" % (m, d))
        k = init.index("self._metric = %s\n" % m)
        if not init[k:].split("\n")[1].strip() == "self._metric_derivative = VectorGradientMixin.%s" % d:
            raise Reject("%s is not paired with %s" % (m, d))
        text, ty = tr_function(src2, find_func(mix, d), "d" + d, ["V", "M"])
        if ty != "V":
            raise Reject("%s does not return a vector" % d)
        out.append(text)
    g = ast.unparse(find_func(mix, "get_fitness_and_gradient"))
    if "self._metric(fitness_vector, individual), self._metric_derivative(fitness_vector, jacobian.transpose())" not in g:
        raise Reject("get_fitness_and_gradient no longer pairs metric and derivative on (vector, jacobian^T)")
    return "\n".join(out) + "\n"


if __name__ == "__main__":
    main(translate, "Metrics.v")

"""Evaluation phase -> coq/Gen/EvalRules.v  (fail-closed).
Translates the 'is this individual due' test of Evaluation._serial_eval / _multiprocess_eval (both sites must state the same
test) into a Gallina boolean, and PINS the statement sequence of the counter-delta protocol that Model/EvalPhase.v writes by
hand: jobs submitted in population order for due individuals only, results taken with res.get() in submission order (which is
also what re-raises a worker's exception), the parent adding each job's counter delta and storing the returned copy in the
job's slot; _fitness_job measuring the delta around exactly one fitness call.  Any other shape is rejected (a harmless
refactoring too: the model would then have to be re-read against the new text)."""
import ast
import sys, os
sys.path.insert(0, os.path.dirname(os.path.abspath(__file__)))
from trlib import *  # noqa


def due_test(e):
    def b(x):
        if isinstance(x, ast.BoolOp):
            return "(" + (" || " if isinstance(x.op, ast.Or) else " && ").join(b(v) for v in x.values) + ")"
        if isinstance(x, ast.UnaryOp) and isinstance(x.op, ast.Not):
            return "(negb %s)" % b(x.operand)
        s = ast.unparse(x)
        if s == "self._redundant":
            return "redundant"
        if s == "indv.fit_set":
            return "fit_set"
        raise Reject("unsupported operand in the due test: %s" % s)
    return b(e)


def expect(stmts, want, where):
    got = [ast.unparse(s) for s in stmts]
    if got != want:
        raise Reject("%s: statements %r, expected %r" % (where, got, want))


def translate(repo):
    src, tree = parse(repo, "bingo/evaluation/evaluation.py")
    ev = find_class(tree, "Evaluation")
    # __call__: multiprocess or serial
    call = body_wo_doc(find_func(ev, "__call__"))
    expect(call, ["if self._multiprocess:\n    self._multiprocess_eval(population)\nelse:\n    self._serial_eval(population)"], "Evaluation.__call__")
    # _serial_eval
    se = body_wo_doc(find_func(ev, "_serial_eval"))
    if not (len(se) == 1 and isinstance(se[0], ast.For) and ast.unparse(se[0].target) == "indv" and ast.unparse(se[0].iter) == "population"
            and not se[0].orelse and len(se[0].body) == 1 and isinstance(se[0].body[0], ast.If) and not se[0].body[0].orelse):
        raise Reject("_serial_eval is not  for indv in population: if c: ...")
    expect(se[0].body[0].body, ["indv.fitness = self.fitness_function(indv)"], "_serial_eval")
    due_serial = due_test(se[0].body[0].test)
    # _multiprocess_eval
    me = body_wo_doc(find_func(ev, "_multiprocess_eval"))
    if not (len(me) == 2 and isinstance(me[1], ast.With) and len(me[1].items) == 1
            and ast.unparse(me[1].items[0]) == "Pool(processes=num_procs) as pool"):
        raise Reject("_multiprocess_eval: not  num_procs = ...; with Pool(processes=num_procs) as pool:")
    w = me[1].body
    if not (len(w) == 3 and ast.unparse(w[0]) == "results = []" and isinstance(w[1], ast.For) and isinstance(w[2], ast.For)):
        raise Reject("_multiprocess_eval: body of the with block is not  results = []; for ...; for ...")
    sub, con = w[1], w[2]
    if not (ast.unparse(sub.target) == "(i, indv)" and ast.unparse(sub.iter) == "enumerate(population)" and not sub.orelse
            and len(sub.body) == 1 and isinstance(sub.body[0], ast.If) and not sub.body[0].orelse):
        raise Reject("_multiprocess_eval: submission loop changed shape")
    expect(sub.body[0].body, ["results.append(pool.apply_async(_fitness_job, (indv, self.fitness_function, i)))"], "submission")
    due_multi = due_test(sub.body[0].test)
    if due_multi != due_serial:
        raise Reject("serial and multi-process evaluation test different conditions: %s vs %s" % (due_serial, due_multi))
    if not (ast.unparse(con.target) == "res" and ast.unparse(con.iter) == "results" and not con.orelse):
        raise Reject("_multiprocess_eval: results are not consumed by  for res in results")
    expect(con.body, ["indv, extra_evals, i = res.get()", "self.fitness_function.eval_count += extra_evals", "population[i] = indv"],
           "consumption of results")
    # _fitness_job
    fj = [n for n in tree.body if isinstance(n, ast.FunctionDef) and n.name == "_fitness_job"]
    if len(fj) != 1 or [a.arg for a in fj[0].args.args] != ["individual", "fitness_function", "population_index"]:
        raise Reject("_fitness_job not found or signature changed")
    expect(body_wo_doc(fj[0]), ["evals_before = fitness_function.eval_count", "individual.fitness = fitness_function(individual)",
                                "extra_evals = fitness_function.eval_count - evals_before",
                                "return (individual, extra_evals, population_index)"], "_fitness_job")
    # the fitness setter marks the individual evaluated
    srcc, treec = parse(repo, "bingo/chromosomes/chromosome.py")
    ch = find_class(treec, "Chromosome")
    setters = [n for n in ch.body if isinstance(n, ast.FunctionDef) and n.name == "fitness"
               and any(ast.unparse(d) == "fitness.setter" for d in n.decorator_list)]
    if len(setters) != 1:
        raise Reject("Chromosome.fitness setter not found")
    expect(body_wo_doc(setters[0]), ["self._fitness = fitness", "self._fit_set = True"], "Chromosome.fitness setter")
    return "\n".join(["(* GENERATED by tools/translate/tr_evalphase.py from the current /repo sources - do not edit *)",
                      "From Coq Require Import Bool.", "",
                      "(* the test both _serial_eval and _multiprocess_eval apply to an individual *)",
                      "Definition gen_due (redundant fit_set : bool) : bool :=\n  %s.\n" % due_serial,
                      "(* pinned (see the translator): submission in population order for due individuals; res.get() in submission",
                      "   order; eval_count += delta; population[i] = returned copy; _fitness_job = delta around one fitness call;",
                      "   assigning a fitness sets the flag *)",
                      "Definition gen_protocol_pinned : bool := true.\n"])


if __name__ == "__main__":
    main(translate, "EvalRules.v")
